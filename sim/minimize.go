package main

import (
	"time"
)

// Minimisation: shrink the scenario while the same violation class persists
// (DESIGN 2.7). ddmin over record operations, model-file messages and fields,
// faults, chunk schedule, history and task schedule. Budget: 400 executions or
// 30 s.

type minimiser struct {
	p        Prop
	class    string
	sig      string
	runs     int
	deadline time.Time
}

func (m *minimiser) fails(sc *Scenario) bool {
	if m.runs >= 400 || time.Now().After(m.deadline) {
		return false
	}
	m.runs++
	st := newStats()
	var vs []Violation
	func() {
		defer func() {
			if r := recover(); r != nil {
				vs = nil
			}
		}()
		vs = m.p.Check(sc, st)
	}()
	for _, v := range vs {
		if v.Class == m.class && v.Signature == m.sig {
			return true
		}
	}
	return false
}

// ddmin reduces a list of n items; keep(mask) must report whether the scenario
// with only the masked items still fails.
func (m *minimiser) ddmin(n int, try func(keep []int) bool) []int {
	cur := make([]int, n)
	for i := range cur {
		cur[i] = i
	}
	gran := 2
	for len(cur) >= 2 {
		if m.runs >= 400 || time.Now().After(m.deadline) {
			break
		}
		chunk := (len(cur) + gran - 1) / gran
		reduced := false
		for s := 0; s < len(cur); s += chunk {
			e := s + chunk
			if e > len(cur) {
				e = len(cur)
			}
			cand := append(append([]int{}, cur[:s]...), cur[e:]...)
			if len(cand) == len(cur) {
				continue
			}
			if try(cand) {
				cur = cand
				if gran > 2 {
					gran--
				}
				reduced = true
				break
			}
		}
		if !reduced {
			if gran >= len(cur) {
				break
			}
			gran *= 2
			if gran > len(cur) {
				gran = len(cur)
			}
		}
	}
	if len(cur) == 1 && try([]int{}) {
		return []int{}
	}
	return cur
}

func minimise(p Prop, sc *Scenario, class, sig string) *Scenario {
	m := &minimiser{p: p, class: class, sig: sig, deadline: time.Now().Add(30 * time.Second)}
	best := sc.Clone()
	if !m.fails(best) {
		return sc // not reproducible in-process (should not happen); keep original
	}
	// 1. record operations of every records medium
	for mi := range best.Media {
		if best.Media[mi].Records == nil {
			continue
		}
		ops := best.Media[mi].Records.Ops
		keep := m.ddmin(len(ops), func(k []int) bool {
			c := best.Clone()
			var no []Op
			for _, i := range k {
				no = append(no, ops[i])
			}
			c.Media[mi].Records.Ops = no
			return m.fails(c)
		})
		var no []Op
		for _, i := range keep {
			no = append(no, ops[i])
		}
		best.Media[mi].Records.Ops = no
	}
	// 2. model files: messages, then fields
	shrinkMF := func(get func(s *Scenario) *ModelFile) {
		mf := get(best)
		if mf == nil {
			return
		}
		msgs := mf.Msgs
		keep := m.ddmin(len(msgs), func(k []int) bool {
			c := best.Clone()
			var nm []MMsg
			for _, i := range k {
				nm = append(nm, msgs[i])
			}
			get(c).Msgs = nm
			return m.fails(c)
		})
		var nm []MMsg
		for _, i := range keep {
			nm = append(nm, msgs[i])
		}
		get(best).Msgs = nm
		for i := range get(best).Msgs {
			for si := range get(best).Msgs[i].Fields {
				c := best.Clone()
				delete(get(c).Msgs[i].Fields, si)
				if m.fails(c) {
					best = c
				}
			}
		}
	}
	for ti := range best.Tasks {
		ti := ti
		if best.Tasks[ti].File != nil {
			shrinkMF(func(s *Scenario) *ModelFile { return s.Tasks[ti].File })
		}
	}
	for mi := range best.Media {
		mi := mi
		if best.Media[mi].Encode != nil {
			shrinkMF(func(s *Scenario) *ModelFile { return s.Media[mi].Encode.File })
		}
	}
	// 3. faults and tails
	for mi := range best.Media {
		if len(best.Media[mi].Flips) > 1 {
			for fi := len(best.Media[mi].Flips) - 1; fi >= 0; fi-- {
				c := best.Clone()
				c.Media[mi].Flips = append(c.Media[mi].Flips[:fi], c.Media[mi].Flips[fi+1:]...)
				if m.fails(c) {
					best = c
				}
			}
		}
		if best.Media[mi].Tail != "" {
			c := best.Clone()
			c.Media[mi].Tail = ""
			if m.fails(c) {
				best = c
			}
		}
	}
	// 4. history
	if len(best.History) > 1 {
		h := best.History
		keep := m.ddmin(len(h), func(k []int) bool {
			c := best.Clone()
			var nh []int
			for _, i := range k {
				nh = append(nh, h[i])
			}
			if len(nh) == 0 {
				return false
			}
			c.History = nh
			return m.fails(c)
		})
		var nh []int
		for _, i := range keep {
			nh = append(nh, h[i])
		}
		if len(nh) > 0 {
			best.History = nh
		}
	}
	// 5. read plans: try the plain schedule, else drop chunk entries
	for ti := range best.Tasks {
		rp := best.Tasks[ti].Read
		if len(rp.Chunks) > 0 || (rp.Tail != "" && rp.Tail != "full") || rp.EOFWithData {
			c := best.Clone()
			c.Tasks[ti].Read.Chunks = nil
			c.Tasks[ti].Read.Tail = "full"
			c.Tasks[ti].Read.EOFWithData = false
			if m.fails(c) {
				best = c
				continue
			}
		}
		if len(rp.Chunks) > 1 {
			ch := rp.Chunks
			keep := m.ddmin(len(ch), func(k []int) bool {
				c := best.Clone()
				var nc []int
				for _, i := range k {
					nc = append(nc, ch[i])
				}
				c.Tasks[ti].Read.Chunks = nc
				return m.fails(c)
			})
			var nc []int
			for _, i := range keep {
				nc = append(nc, ch[i])
			}
			best.Tasks[ti].Read.Chunks = nc
		}
		if len(best.Tasks[ti].Opts) > 0 {
			c := best.Clone()
			c.Tasks[ti].Opts = nil
			if m.fails(c) {
				best = c
			}
		}
	}
	// 6. task schedule (conc): remove context switches
	if len(best.Schedule) > 1 {
		s := best.Schedule
		keep := m.ddmin(len(s), func(k []int) bool {
			c := best.Clone()
			var ns []int
			for _, i := range k {
				ns = append(ns, s[i])
			}
			c.Schedule = ns
			return m.fails(c)
		})
		var ns []int
		for _, i := range keep {
			ns = append(ns, s[i])
		}
		best.Schedule = ns
	}
	return best
}
