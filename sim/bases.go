package main

// FIT base types, written from the protocol description (not from
// internal/types): byte value, size, signedness, class, invalid pattern.

type BaseInfo struct {
	Byte    byte
	Name    string
	Size    int
	Signed  bool
	Float   bool
	Integer bool // numeric integer (enum and byte are "unsigned 8 bit" for value purposes)
	String  bool
	Invalid uint64 // bit pattern of the invalid value (Size bytes)
}

var baseTable = []BaseInfo{
	{0x00, "enum", 1, false, false, true, false, 0xFF},
	{0x01, "sint8", 1, true, false, true, false, 0x7F},
	{0x02, "uint8", 1, false, false, true, false, 0xFF},
	{0x83, "sint16", 2, true, false, true, false, 0x7FFF},
	{0x84, "uint16", 2, false, false, true, false, 0xFFFF},
	{0x85, "sint32", 4, true, false, true, false, 0x7FFFFFFF},
	{0x86, "uint32", 4, false, false, true, false, 0xFFFFFFFF},
	{0x07, "string", 1, false, false, false, true, 0x00},
	{0x88, "float32", 4, true, true, false, false, 0xFFFFFFFF},
	{0x89, "float64", 8, true, true, false, false, 0xFFFFFFFFFFFFFFFF},
	{0x0A, "uint8z", 1, false, false, true, false, 0x00},
	{0x8B, "uint16z", 2, false, false, true, false, 0x0000},
	{0x8C, "uint32z", 4, false, false, true, false, 0x00000000},
	{0x0D, "byte", 1, false, false, true, false, 0xFF},
	{0x8E, "sint64", 8, true, false, true, false, 0x7FFFFFFFFFFFFFFF},
	{0x8F, "uint64", 8, false, false, true, false, 0xFFFFFFFFFFFFFFFF},
	{0x90, "uint64z", 8, false, false, true, false, 0x0000000000000000},
}

var baseByByte = func() map[byte]*BaseInfo {
	m := map[byte]*BaseInfo{}
	for i := range baseTable {
		m[baseTable[i].Byte] = &baseTable[i]
	}
	return m
}()

func baseOf(b byte) *BaseInfo { return baseByByte[b] }

const (
	kindNative = 0
	kindUTC    = 1
	kindLocal  = 2
	kindLat    = 3
	kindLng    = 4
)

const fitEpochUnix = 631065600 // 1989-12-31T00:00:00Z
