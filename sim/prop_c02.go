package main

import (
	"fmt"
)

// C02 - decoded field values equal the wire values (engine rx, fault-free).

type ftMesg struct {
	ft byte
	mn uint16
}

type propC02 struct {
	seed  uint64
	tier  string
	pairs []ftMesg
	count int
}

func init() { register(&propC02{}) }

func (p *propC02) ID() string     { return "C02" }
func (p *propC02) Engine() string { return "rx" }
func (p *propC02) Level() string  { return "exploration" }
func (p *propC02) Rule() string {
	return "scenario = a model-built record stream (file type hosting the target message; definitions drawn per field from the profile type at full width, same-signedness narrower types, same-size sibling types, arrays of 1..N elements, strings with NUL at every position class, times and coordinates; both byte orders switched between definitions; interleaved with unlisted fields, unknown messages, developer fields, unhosted known messages) decoded through a seeded read plan; the scenario index cycles deterministically through every (file type, hosted message) pair, a sliding window over its profile fields, and both byte orders. " +
		"Every exported field of every hosted message is compared with the decode model (absent => invalid). key = (message, field, definition type, size class, byte order); non-trivial when the plan was not 'full' or a field straddled a chunk"
}
func (p *propC02) Assumptions() []string {
	return []string{
		"don't-cares of DESIGN 2.5: reserved header bits 0; size-0 arrays, non-scalar sizes for scalar fields and the narrow type's invalid pattern in a narrowed field are not value-checked; latitude exactly +2^30 not generated; a component source together with an explicitly transmitted destination is not value-checked",
		"only hosted messages are observable (45 message types, 644 of 779 fields); the others are sent as neighbours that must not disturb anything",
		"accumulated destinations (distance / total_cycles / accumulated_power) are left to C18",
		"the profile table used by the model is the pinned snapshot while the version constants say 21.115",
	}
}
func (p *propC02) ProbeNames() []string {
	return []string{"narrowed LE", "narrowed BE", "signed-negative narrowed", "array longer than profile", "unterminated string", "unknown/dev field neighbour", "compressed header", "field straddling a chunk", "definition with >= 170 fields", "record longer than 4096 bytes"}
}

func (p *propC02) Prepare(seed uint64, tier string) int {
	p.seed, p.tier = seed, tier
	p.pairs = nil
	for _, ft := range supportedFileTypes {
		for _, mn := range hostedMesgNums(ft) {
			if len(prof.byMesg[mn]) > 0 {
				p.pairs = append(p.pairs, ftMesg{ft, mn})
			}
		}
		p.pairs = append(p.pairs, ftMesg{ft, 49}) // file_creator
	}
	p.count = 1200000
	if isThorough(tier) {
		p.count = 10000000
	}
	return p.count
}

func (p *propC02) Gen(idx int) *Scenario {
	r := NewRng(p.seed, "C02", idx)
	pr := p.pairs[idx%len(p.pairs)]
	round := idx / len(p.pairs)
	arch := round % 2
	if round%5 == 4 {
		arch = 2
	}
	nf := len(prof.byMesg[pr.mn])
	win := 8
	o := StreamOpts{FT: pr.ft, NData: r.Range(1, 10), Arch: arch, Narrow: true, Unknown: r.Chance(1, 2), Dev: r.Chance(1, 3),
		Compressed: r.Chance(1, 4), Accum: true, Unhosted: r.Chance(1, 3), Hdr14: r.Bool(), OnlyMesg: pr.mn,
		WinStart: ((round / 2) * win) % maxInt(nf, 1), WinLen: win, BigArr: true}
	if r.Chance(1, 4) {
		o.OnlyMesg = 0 // free mix of all hosted messages
		o.NData = r.Range(1, 25)
	}
	if idx%307 == 5 {
		o.NData = r.Range(600, 2500) // long streams: many buffer refills, containers past 512 entries
		o.MaxFields = 4
	}
	rs := genStream(r, o)
	if r.Chance(1, 40) {
		withJumbo(r, rs)
	}
	plan := genPlan(r, false, true)
	return &Scenario{V: 1, Property: "C02", Engine: "rx", Seed: p.seed, Index: idx,
		Media: []Medium{{ID: "m0", Records: rs}}, Params: map[string]string{"ft": itoa(int(pr.ft))},
		Tasks: []Task{{ID: 0, Call: "Decode", In: "m0", Read: plan}}}
}

// fileTypeOfOps reads file_id.type from the first file_id data op.
func fileTypeOfOps(ops []Op) (byte, bool) {
	var defs [16]*DefOp
	for i := range ops {
		switch {
		case ops[i].Def != nil:
			defs[ops[i].Def.Local&15] = ops[i].Def
		case ops[i].Data != nil:
			l := ops[i].Data.Local & 15
			if ops[i].Data.Comp {
				l = ops[i].Data.Local & 3
			}
			d := defs[l]
			if d == nil || d.Global != 0 {
				return 0, false
			}
			b := unhex(ops[i].Data.Bytes)
			p := 0
			for _, fd := range d.Fields {
				if fd[0] == 0 && fd[1] >= 1 && p < len(b) {
					return b[p], true
				}
				p += fd[1]
			}
			return 0, false
		}
	}
	return 0, false
}

// streamSane reports whether ops still describe a well-formed stream the value
// oracles can speak about (used after minimisation removed operations).
func streamSane(ops []Op) bool {
	var defs [16]*DefOp
	first := true
	for i := range ops {
		switch {
		case ops[i].Def != nil:
			if first && ops[i].Def.Global != 0 {
				return false
			}
			defs[ops[i].Def.Local&15] = ops[i].Def
		case ops[i].Data != nil:
			l := ops[i].Data.Local & 15
			if ops[i].Data.Comp {
				l = ops[i].Data.Local & 3
			}
			d := defs[l]
			if d == nil {
				return false
			}
			n := 0
			for _, fd := range d.Fields {
				n += fd[1]
			}
			for _, fd := range d.Dev {
				n += fd[1]
			}
			if len(ops[i].Data.Bytes) != 2*n {
				return false
			}
			if first && d.Global != 0 {
				return false
			}
			first = false
		default:
			return false
		}
	}
	return !first
}

func (p *propC02) Check(sc *Scenario, st *Stats) []Violation {
	var vs []Violation
	if len(sc.Media) == 0 || sc.Media[0].Records == nil || len(sc.Tasks) == 0 {
		return nil
	}
	rs := sc.Media[0].Records
	if !streamSane(rs.Ops) {
		return nil
	}
	ft, ok := fileTypeOfOps(rs.Ops)
	if !ok || !isSupportedFileType(ft) {
		return nil
	}
	mo := interpret(rs.Ops)
	if mo.ErrOp >= 0 {
		return nil
	}
	// a second file_id is C03's business
	nid := 0
	for _, m := range mo.Msgs {
		if m.Global == 0 {
			nid++
		}
	}
	if nid != 1 {
		return nil
	}
	media := sc.buildMedia()
	r := runTask(&sc.Tasks[0], media, nil, nil)
	st.Observe(r)
	pc := planClass(sc.Tasks[0].Read)
	if r.Panic != "" {
		return []Violation{{Property: "C02", Class: "C02/panic", Detail: r.Panic}}
	}
	if r.ErrClass != "nil" {
		return []Violation{{Property: "C02", Class: "C02/rejects-wellformed/" + r.ErrClass, Detail: "Decode failed on a well-formed, profile-compatible stream: " + r.Err}}
	}
	// probes and keys from the definitions
	var defs [16]*DefOp
	for i := range rs.Ops {
		op := &rs.Ops[i]
		if op.Def != nil {
			defs[op.Def.Local&15] = op.Def
			continue
		}
		if op.Data == nil {
			continue
		}
		l := op.Data.Local & 15
		if op.Data.Comp {
			l = op.Data.Local & 3
			st.Probe("compressed header")
		}
		d := defs[l]
		if len(d.Dev) > 0 {
			st.Probe("unknown/dev field neighbour")
		}
		st.ProbeIf(len(d.Fields) >= 170, "definition with >= 170 fields")
		st.ProbeIf(len(op.Data.Bytes) > 8192, "record longer than 4096 bytes")
		payload := unhex(op.Data.Bytes)
		off := 0
		for _, fd := range d.Fields {
			pf := prof.Field(d.Global, byte(fd[0]))
			b := payload[off : off+fd[1]]
			off += fd[1]
			if pf == nil {
				if prof.Known(d.Global) {
					st.Probe("unknown/dev field neighbour")
				}
				continue
			}
			if _, hosted := hostsOf(ft)[d.Global]; !hosted {
				continue
			}
			db, pb := baseOf(byte(fd[2])), baseOf(pf.Base)
			if pc != "full" {
				st.Key(d.Global, fd[0], fd[2], sizeClass(fd[1]), d.Arch)
			}
			if !pf.Array && !pb.String && db.Size < pb.Size {
				if d.be() {
					st.Probe("narrowed BE")
				} else {
					st.Probe("narrowed LE")
				}
				if db.Signed && signExtend(getN(b, d.be()), db.Size) < 0 {
					st.Probe("signed-negative narrowed")
				}
			}
			if pf.Array && !pb.String && fd[1]/pb.Size > int(pf.Length) {
				st.Probe("array longer than profile")
			}
			if pb.String && pf.Array {
				st.Probe("string array")
			}
			if pb.String && !pf.Array {
				nul := false
				for _, x := range b {
					if x == 0 {
						nul = true
					}
				}
				if !nul {
					st.Probe("unterminated string")
				}
			}
		}
	}
	st.ProbeIf(r.ShortReads > 0, "field straddling a chunk")
	if pc != "full" {
		st.Nontrivial++
	}
	diffs := compareFile(r.file, ft, mo.Msgs, compareOpts{skipAccum: true}, st)
	seen := map[string]bool{}
	for _, d := range diffs {
		cls := "C02/value/" + d.Shape
		_ = fmt.Sprint
		if seen[cls] {
			continue
		}
		seen[cls] = true
		vs = append(vs, Violation{Property: "C02", Class: cls, Detail: d.String()})
		if len(vs) >= 5 {
			break
		}
	}
	return vs
}
