package main

import (
	"bytes"
	"os"
	"path/filepath"
	"sort"

	"github.com/tormoder/fit"
)

// ---- field level ----

var unsigned1 = []byte{0x00, 0x02, 0x0A, 0x0D}
var narrowerOf = map[byte][]byte{
	0x84: {0x00, 0x02, 0x0A, 0x0D},             // uint16  <- 1-byte unsigned
	0x8B: {0x00, 0x02, 0x0A, 0x0D},             // uint16z
	0x86: {0x84, 0x8B, 0x00, 0x02, 0x0A, 0x0D}, // uint32
	0x8C: {0x84, 0x8B, 0x00, 0x02, 0x0A, 0x0D}, // uint32z
	0x83: {0x01},                               // sint16 <- sint8
	0x85: {0x83, 0x01},                         // sint32
}
var siblingOf = map[byte][]byte{
	0x00: {0x02, 0x0A, 0x0D}, 0x02: {0x00, 0x0A, 0x0D}, 0x0A: {0x00, 0x02, 0x0D}, 0x0D: {0x00, 0x02, 0x0A},
	0x84: {0x8B}, 0x8B: {0x84}, 0x86: {0x8C}, 0x8C: {0x86},
}

type fieldMode struct {
	narrow  bool // allow narrower / sibling definition types
	bigArr  bool // allow arrays up to 255 bytes
	utf8    bool // strings valid UTF-8 and NUL terminated inside the size (re-encodable)
	tsFloor bool // timestamps >= system time marker only
}

func pickValue(r *Rng, d *BaseInfo, avoidInvalid bool) uint64 {
	mask := uint64(1)<<(8*uint(d.Size)) - 1
	if d.Size == 8 {
		mask = ^uint64(0)
	}
	var v uint64
	switch r.Intn(8) {
	case 0:
		v = 0
	case 1:
		v = 1
	case 2:
		v = uint64(1) << (8*uint(d.Size) - 1) // sign bit
	case 3:
		v = mask
	case 4:
		v = d.Invalid - 1
	case 5:
		v = d.Invalid
	default:
		v = r.U64()
	}
	v &= mask
	if avoidInvalid && v == d.Invalid {
		v = (v + 3) & mask
		if v == d.Invalid {
			v = 5 & mask
		}
	}
	return v
}

var asciiWords = []string{"run", "Garmin", "edge 810", "ÆØÅ", "日本", "lap-1", "x", "fit file", "µ", "HRM"}

func genString(r *Rng, size int, fm fieldMode) []byte {
	b := make([]byte, size)
	if size == 0 {
		return b
	}
	w := asciiWords[r.Intn(len(asciiWords))]
	for len(w) < size && r.Chance(1, 2) {
		w += " " + asciiWords[r.Intn(len(asciiWords))]
	}
	if fm.utf8 {
		// keep whole runes, leave room for the terminator
		n := 0
		for i, c := range w {
			l := len(string(c))
			if i+l > size-1 {
				break
			}
			n = i + l
		}
		copy(b, w[:n])
		return b
	}
	switch r.Intn(6) {
	case 0: // unterminated, fills the field
		for i := range b {
			b[i] = w[i%len(w)]
		}
	case 1: // empty
	case 2: // raw bytes, maybe not UTF-8, NUL somewhere
		for i := range b {
			b[i] = r.Byte()
		}
		if size > 1 && r.Bool() {
			b[r.Intn(size)] = 0
		}
	case 3: // terminated, junk after the NUL
		n := copy(b, w)
		if n < size {
			b[n] = 0
			for i := n + 1; i < size; i++ {
				b[i] = r.Byte()
			}
		}
	default:
		copy(b, w)
		if len(w) >= size {
			b[size-1] = 0
		}
	}
	return b
}

// genField picks a definition for profile field pf and a payload inside the
// domain the decode model defines. arrCount < 0 lets the generator choose.
func genField(r *Rng, pf *PField, be bool, fm fieldMode) (fd [3]int, payload []byte) {
	p := baseOf(pf.Base)
	dbase := pf.Base
	switch {
	case p.String:
		size := r.Range(1, 24)
		if r.Chance(1, 10) {
			size = r.Range(25, 255)
		}
		if pf.Array && !fm.utf8 {
			// s1 NUL s2 NUL ... padding | last unterminated
			var b []byte
			n := r.Range(1, 3)
			for i := 0; i < n; i++ {
				b = append(b, asciiWords[r.Intn(len(asciiWords))]...)
				if i < n-1 || r.Chance(2, 3) {
					b = append(b, 0)
				}
			}
			for k := r.Intn(3); k > 0 && len(b) > 0 && b[len(b)-1] == 0; k-- {
				b = append(b, 0)
			}
			if len(b) > 255 {
				b = b[:255]
			}
			return [3]int{int(pf.Num), len(b), int(dbase)}, b
		}
		return [3]int{int(pf.Num), size, int(dbase)}, genString(r, size, fm)
	case pf.Array:
		maxN := 6
		if fm.bigArr && r.Chance(1, 8) {
			maxN = 255 / p.Size
		}
		n := r.Range(1, maxN)
		b := make([]byte, n*p.Size)
		for i := 0; i < n; i++ {
			putN(b[i*p.Size:(i+1)*p.Size], be, pickValue(r, p, false))
		}
		return [3]int{int(pf.Num), len(b), int(dbase)}, b
	case pf.Kind == kindUTC || pf.Kind == kindLocal:
		d := p
		if fm.narrow && pf.Num != 253 && r.Chance(1, 10) {
			c := narrowerOf[0x86]
			dbase = c[r.Intn(len(c))]
			d = baseOf(dbase)
		}
		var v uint64
		switch r.Intn(6) {
		case 0:
			v = 0xFFFFFFFF
		case 1:
			if fm.tsFloor {
				v = 0x10000000 + uint64(r.Intn(1<<20))
			} else {
				v = uint64(r.Intn(0x10000000))
			}
		default:
			v = 0x10000000 + r.U64()%0xE0000000
		}
		if d.Size < 4 {
			v = pickValue(r, d, true)
		}
		b := make([]byte, d.Size)
		putN(b, be, v)
		return [3]int{int(pf.Num), d.Size, int(dbase)}, b
	case pf.Kind == kindLat:
		var v int32
		switch r.Intn(8) {
		case 0:
			v = 0x7FFFFFFF
		case 1:
			v = -(1 << 30)
		case 2:
			v = 1<<30 - 1
		case 3:
			v = int32(1<<30 + 1 + r.Intn(1<<20)) // out of range -> invalid
		case 4:
			v = -int32(1<<30+1) - int32(r.Intn(1<<20))
		default:
			v = int32(r.Intn(1<<31)) - 1<<30
		}
		b := make([]byte, 4)
		putN(b, be, uint64(uint32(v)))
		return [3]int{int(pf.Num), 4, int(dbase)}, b
	case pf.Kind == kindLng:
		b := make([]byte, 4)
		putN(b, be, pickValue(r, p, false))
		return [3]int{int(pf.Num), 4, int(dbase)}, b
	}
	// native scalar
	d := p
	if fm.narrow {
		switch r.Intn(5) {
		case 0:
			if c := narrowerOf[pf.Base]; len(c) > 0 {
				dbase = c[r.Intn(len(c))]
			}
		case 1:
			if c := siblingOf[pf.Base]; len(c) > 0 {
				dbase = c[r.Intn(len(c))]
			}
		}
		d = baseOf(dbase)
	}
	v := pickValue(r, d, d.Size < p.Size)
	b := make([]byte, d.Size)
	putN(b, be, v)
	return [3]int{int(pf.Num), d.Size, int(dbase)}, b
}

// ---- stream level ----

type StreamOpts struct {
	FT         byte
	NData      int
	Arch       int // 0 le, 1 be, 2 mixed
	Narrow     bool
	Unknown    bool // unknown messages and unlisted field numbers
	Dev        bool // developer fields
	Compressed bool // compressed timestamp headers
	Accum      bool // allow accumulating component sources (record cycles / csd / cap)
	UTF8       bool // strings re-encodable
	Unhosted   bool // known messages the file type does not hold
	Hdr14      bool
	HCRCZero   bool
	Proto      byte
	MaxFields  int
	OnlyMesg   uint16 // if non-zero, restrict hosted data messages to this one
	BigArr     bool
	NoLocalTS  bool
	WinStart   int // with OnlyMesg: definitions take the profile fields [WinStart, WinStart+WinLen) (cyclic)
	WinLen     int
	CompNoRef  bool // compressed-timestamp records may come before any reference timestamp
}

var accumSources = map[byte]bool{} // record field numbers that feed accumulators

func initAccumSources() {
	if len(accumSources) > 0 {
		return
	}
	for _, n := range []string{"Cycles", "CompressedSpeedDistance", "CompressedAccumulatedPower"} {
		if pf := fieldByName(gRecord, n); pf != nil {
			accumSources[pf.Num] = true
		}
	}
}

// halfKnownGlobals: message numbers the decoder does not treat as known although
// some generated table has an entry for them (a constructor, a struct type).
var halfKnown []uint16
var halfKnownDone bool

func halfKnownGlobals() []uint16 {
	if !halfKnownDone {
		halfKnownDone = true
		for mn := 0; mn < 1024; mn++ {
			if prof.Known(uint16(mn)) {
				continue
			}
			_, a := fit.VerifNewMesg(uint16(mn))
			_, b := fit.VerifMesgType(uint16(mn))
			if a || b {
				halfKnown = append(halfKnown, uint16(mn))
			}
		}
	}
	return halfKnown
}

func unknownGlobal(r *Rng) uint16 {
	if hk := halfKnownGlobals(); len(hk) > 0 && r.Chance(1, 6) {
		return hk[r.Intn(len(hk))]
	}
	for {
		var g uint16
		switch r.Intn(4) {
		case 0:
			g = uint16(0xFF00 + r.Intn(0xFE)) // manufacturer range
		case 1:
			g = uint16(400 + r.Intn(2000)) // beyond the table
		case 2:
			g = 0xFFFE
		default:
			g = uint16(r.Intn(394)) // a hole inside the table
		}
		if !prof.Known(g) && g != 0xFFFF {
			return g
		}
	}
}

func unlistedField(r *Rng, g uint16, used map[int]bool) int {
	for i := 0; i < 50; i++ {
		n := r.Intn(255)
		if prof.Field(g, byte(n)) == nil && !used[n] {
			return n
		}
	}
	return -1
}

var anyBases = []byte{0x00, 0x01, 0x02, 0x83, 0x84, 0x85, 0x86, 0x07, 0x88, 0x89, 0x0A, 0x8B, 0x8C, 0x0D, 0x8E, 0x8F, 0x90}

func genAnyField(r *Rng, num int) ([3]int, []byte) {
	b := baseOf(anyBases[r.Intn(len(anyBases))])
	size := b.Size * r.Range(1, 3)
	if b.String {
		size = r.Range(1, 12)
		if r.Chance(1, 6) {
			size = 0 // a string field of width 0 is legal: listed in the definition, no bytes in the record
		}
	}
	return [3]int{num, size, int(b.Byte)}, r.Bytes(size)
}

type streamGen struct {
	r    *Rng
	o    StreamOpts
	defs [16]*DefOp
	ops  []Op
	ref  bool // an explicit valid timestamp has been emitted
}

func (g *streamGen) arch() string {
	switch g.o.Arch {
	case 0:
		return "le"
	case 1:
		return "be"
	}
	if g.r.Bool() {
		return "be"
	}
	return "le"
}

// defFor builds a definition of message gl in slot local.
func (g *streamGen) defFor(local byte, gl uint16) *DefOp {
	r := g.r
	d := &DefOp{Local: local, Arch: g.arch(), Global: gl}
	used := map[int]bool{}
	if prof.Known(gl) {
		pfs := prof.byMesg[gl]
		maxf := g.o.MaxFields
		if maxf <= 0 {
			maxf = 10
		}
		n := r.Range(1, maxf)
		if n > len(pfs) {
			n = len(pfs)
		}
		// a known message whose definition lists unlisted field numbers only
		onlyUnlisted := g.o.Unknown && (len(pfs) == 0 || r.Chance(1, 12)) && g.o.OnlyMesg == 0
		if onlyUnlisted {
			n = 0
		}
		perm := r.Perm(len(pfs))
		if g.o.OnlyMesg == gl && g.o.WinLen > 0 {
			n = g.o.WinLen
			if n > len(pfs) {
				n = len(pfs)
			}
			perm = perm[:0]
			for _, j := range r.Perm(n) {
				perm = append(perm, (g.o.WinStart+j)%len(pfs))
			}
		}
		for _, pi := range perm[:n] {
			pf := pfs[pi]
			if gl == gRecord && !g.o.Accum && accumSources[pf.Num] {
				continue
			}
			if g.o.NoLocalTS && pf.Kind == kindLocal {
				continue
			}
			// placeholder; sizes are fixed per definition, so draw the def shape now
			fd, _ := genField(r, pf, d.be(), g.fm())
			d.Fields = append(d.Fields, fd)
			used[int(pf.Num)] = true
		}
		if g.o.Unknown && (onlyUnlisted || r.Chance(1, 3)) {
			for k := r.Range(1, 2); k > 0; k-- {
				if n := unlistedField(r, gl, used); n >= 0 {
					fd, _ := genAnyField(r, n)
					pos := r.Intn(len(d.Fields) + 1)
					d.Fields = append(d.Fields[:pos], append([][3]int{fd}, d.Fields[pos:]...)...)
					used[n] = true
				}
			}
		}
	} else {
		for k := r.Range(0, 4); k > 0; k-- {
			n := r.Intn(255)
			if used[n] {
				continue
			}
			used[n] = true
			fd, _ := genAnyField(r, n)
			d.Fields = append(d.Fields, fd)
		}
	}
	if g.o.Dev && r.Chance(1, 4) {
		for k := r.Range(1, 3); k > 0; k-- {
			d.Dev = append(d.Dev, [3]int{r.Intn(256), r.Range(0, 9), r.Intn(4)})
		}
	}
	return d
}

func (g *streamGen) fm() fieldMode {
	return fieldMode{narrow: g.o.Narrow, bigArr: g.o.BigArr, utf8: g.o.UTF8, tsFloor: true}
}

// dataFor builds a data record for the definition in force.
func (g *streamGen) dataFor(d *DefOp, fixed map[int][]byte) []byte {
	r := g.r
	var out []byte
	for _, fd := range d.Fields {
		if b, ok := fixed[fd[0]]; ok && len(b) == fd[1] {
			out = append(out, b...)
			continue
		}
		pf := prof.Field(d.Global, byte(fd[0]))
		if pf == nil || !prof.Known(d.Global) {
			out = append(out, r.Bytes(fd[1])...)
			continue
		}
		out = append(out, g.payloadFor(pf, fd, d.be())...)
	}
	for _, fd := range d.Dev {
		out = append(out, r.Bytes(fd[1])...)
	}
	return out
}

// payloadFor draws a value for an already fixed definition triple.
func (g *streamGen) payloadFor(pf *PField, fd [3]int, be bool) []byte {
	r := g.r
	d := baseOf(byte(fd[2]))
	size := fd[1]
	p := baseOf(pf.Base)
	switch {
	case p.String:
		if pf.Array && !g.o.UTF8 {
			b := make([]byte, size)
			i := 0
			for i < size {
				w := asciiWords[r.Intn(len(asciiWords))]
				n := copy(b[i:], w)
				i += n
				if i < size {
					b[i] = 0
					i++
				}
				if r.Chance(1, 3) {
					break
				}
			}
			return b
		}
		return genString(r, size, g.fm())
	case pf.Array:
		b := make([]byte, size)
		for i := 0; i+d.Size <= size; i += d.Size {
			putN(b[i:i+d.Size], be, pickValue(r, d, false))
		}
		return b
	case pf.Kind == kindUTC, pf.Kind == kindLocal:
		var v uint64
		if d.Size < 4 {
			v = pickValue(r, d, true)
		} else {
			switch r.Intn(8) {
			case 0:
				v = 0xFFFFFFFF
			default:
				v = 0x10000000 + r.U64()%0xE0000000
			}
			if pf.Num == 253 && v != 0xFFFFFFFF {
				g.ref = true
			}
		}
		b := make([]byte, d.Size)
		putN(b, be, v)
		return b
	case pf.Kind == kindLat || pf.Kind == kindLng:
		_, b := genField(r, pf, be, g.fm())
		return b
	}
	v := pickValue(r, d, d.Size < p.Size)
	b := make([]byte, d.Size)
	putN(b, be, v)
	return b
}

func (g *streamGen) emitDef(d *DefOp) {
	g.defs[d.Local] = d
	cp := *d
	g.ops = append(g.ops, Op{Def: &cp})
}

func (g *streamGen) emitData(local byte, comp bool, off byte, payload []byte) {
	g.ops = append(g.ops, Op{Data: &DataOp{Local: local, Comp: comp, Off: off, Bytes: hexs(payload)}})
}

// fileIDOps emits the mandatory leading file_id definition and record.
func (g *streamGen) fileIDOps() {
	r := g.r
	local := byte(r.Intn(16))
	d := &DefOp{Local: local, Arch: g.arch(), Global: 0}
	typeFd := [3]int{0, 1, 0x00}
	d.Fields = append(d.Fields, typeFd)
	for _, pf := range prof.byMesg[0] {
		if pf.Num == 0 || !r.Chance(1, 2) {
			continue
		}
		fd, _ := genField(r, pf, d.be(), g.fm())
		if r.Bool() {
			d.Fields = append(d.Fields, fd)
		} else {
			d.Fields = append([][3]int{fd}, d.Fields...)
		}
	}
	if g.o.Unknown && r.Chance(1, 4) {
		// unlisted field numbers in the leading file_id record too
		used := map[int]bool{}
		for _, fd := range d.Fields {
			used[fd[0]] = true
		}
		for k := r.Range(1, 2); k > 0; k-- {
			if n := unlistedField(r, 0, used); n >= 0 {
				fd, _ := genAnyField(r, n)
				pos := r.Intn(len(d.Fields) + 1)
				d.Fields = append(d.Fields[:pos], append([][3]int{fd}, d.Fields[pos:]...)...)
				used[n] = true
			}
		}
	}
	g.emitDef(d)
	g.emitData(local, false, 0, g.dataFor(d, map[int][]byte{0: {g.o.FT}}))
}

func genStream(r *Rng, o StreamOpts) *RecStream {
	initAccumSources()
	g := &streamGen{r: r, o: o}
	g.fileIDOps()
	hosted := hostedMesgNums(o.FT)
	var pool []uint16
	for _, h := range hosted {
		if len(prof.byMesg[h]) > 0 {
			pool = append(pool, h)
		}
	}
	if o.OnlyMesg != 0 {
		pool = []uint16{o.OnlyMesg}
	}
	for n := 0; n < o.NData; n++ {
		var gl uint16
		x := r.Intn(20)
		switch {
		case o.Unknown && x == 0:
			gl = unknownGlobal(r)
		case o.Unhosted && x == 1:
			gl = prof.Mesgs[r.Intn(len(prof.Mesgs))].Num
			if gl == 0 {
				gl = 49
			}
		case x == 2 && o.OnlyMesg == 0:
			gl = 49 // file_creator
		default:
			if len(pool) == 0 {
				gl = 49
			} else {
				gl = pool[r.Intn(len(pool))]
			}
		}
		if len(prof.byMesg[gl]) == 0 && prof.Known(gl) && !(o.Unknown && r.Chance(1, 2)) {
			gl = 49
		}
		// choose a slot
		local := byte(255)
		if r.Chance(3, 5) {
			var cands []byte
			for i, d := range g.defs {
				if d != nil && d.Global == gl {
					cands = append(cands, byte(i))
				}
			}
			if len(cands) > 0 {
				local = cands[r.Intn(len(cands))]
			}
		}
		if local == 255 {
			local = byte(r.Intn(16))
			if o.Compressed && r.Chance(1, 2) {
				local = byte(r.Intn(4))
			}
			g.emitDef(g.defFor(local, gl))
		}
		d := g.defs[local]
		comp := false
		var off byte
		if o.Compressed && local < 4 && (g.ref || o.CompNoRef) && r.Chance(1, 2) {
			comp = true
			off = byte(r.Intn(32))
		}
		g.emitData(local, comp, off, g.dataFor(d, nil))
	}
	hs := HeaderSpec{Size: 12, Proto: o.Proto, Profile: 2115}
	if hs.Proto == 0 {
		// any protocol version whose major number is supported, any profile version
		hs.Proto = []byte{0x20, 0x20, 0x10, 0x21, 0x2F, 0x00, 0x1A}[r.Intn(7)]
		if r.Chance(1, 3) {
			hs.Profile = uint16(r.U64())
		}
	}
	if o.Hdr14 {
		hs.Size = 14
		hs.HCRC = "ok"
		if o.HCRCZero {
			hs.HCRC = "zero"
		}
	}
	return &RecStream{Header: hs, Ops: g.ops}
}

// ---- pools ----

type poolEntry struct {
	Name  string
	Bytes []byte
	Med   Medium
	Accum bool // carries accumulating component sources
	FT    byte
}

func hasAccumSource(b []byte) bool {
	initAccumSources()
	frames, _ := parseChain(b)
	for _, f := range frames {
		for _, r := range f.Records {
			if r.Kind == "def" && r.Global == gRecord {
				for _, fd := range r.Def.Fields {
					if accumSources[byte(fd[0])] {
						return true
					}
				}
			}
		}
	}
	return false
}

func plainDecodeOK(b []byte) bool {
	ok := false
	func() {
		defer func() { recover() }()
		_, err := fit.Decode(bytes.NewReader(b))
		ok = err == nil
	}()
	return ok
}

var corpusList []string

func listCorpus() []string {
	if corpusList != nil {
		return corpusList
	}
	ms, _ := filepath.Glob(filepath.Join(repoRoot, "testdata", "*", "*.fit"))
	sort.Strings(ms)
	for _, m := range ms {
		rel, _ := filepath.Rel(repoRoot, m)
		corpusList = append(corpusList, rel)
	}
	return corpusList
}

// corpusFrames returns corpus files that are exactly one valid frame which the
// plain decoder accepts (a precondition check, executed on the tree under test).
func corpusFrames(maxSize int, allowAccum bool) []poolEntry {
	var out []poolEntry
	for _, rel := range listCorpus() {
		st, err := os.Stat(filepath.Join(repoRoot, rel))
		if err != nil || int(st.Size()) > maxSize {
			continue
		}
		b := readCorpus(rel)
		f := parseFrame(b, 0)
		if f == nil || len(f.Problems) > 0 || f.End != len(b) {
			continue
		}
		acc := hasAccumSource(b)
		if acc && !allowAccum {
			continue
		}
		if !plainDecodeOK(b) {
			continue
		}
		out = append(out, poolEntry{Name: rel, Bytes: b, Med: Medium{Corpus: rel}, Accum: acc, FT: frameFileType(b, f)})
	}
	return out
}

// frameFileType extracts file_id.type from the first data record, if it can.
func frameFileType(b []byte, f *Frame) byte {
	for _, r := range f.Records {
		if r.Kind == "data" && r.Global == 0 {
			for i, fd := range r.Def.Fields {
				if fd[0] == 0 && fd[1] >= 1 {
					return b[r.FieldOff[i]]
				}
			}
		}
	}
	return 0
}

// stateProbeStreams builds small streams whose decoding is sensitive to every
// piece of per-call decoder state being fresh: reference timestamp and last
// offset (compressed record / local timestamp before any timestamp), the
// definition slots (data record for a never-defined local type: must fail),
// unknown-item counters. Used by the pools of C08, C09, C10 and C16.
func stateProbeStreams(r *Rng) []*RecStream {
	hdr := func() HeaderSpec { return HeaderSpec{Size: 12 + 2*r.Intn(2), Proto: 0x20, Profile: 2115, HCRC: "ok"} }
	le32 := func(v uint32) string { b := make([]byte, 4); putN(b, false, uint64(v)); return hexs(b) }
	ts := uint32(0x30000000 + r.Intn(1<<28))
	var out []*RecStream
	// 1. activity: compressed records before any timestamp, then a timestamp, then compressed again
	out = append(out, &RecStream{Header: hdr(), Ops: []Op{
		{Def: &DefOp{Local: 5, Arch: "le", Global: 0, Fields: [][3]int{{0, 1, 0}}}},
		{Data: &DataOp{Local: 5, Bytes: "04"}},
		{Def: &DefOp{Local: 0, Arch: "le", Global: 20, Fields: [][3]int{{3, 1, 2}}}},
		{Data: &DataOp{Local: 0, Comp: true, Off: byte(r.Intn(32)), Bytes: "50"}},
		{Data: &DataOp{Local: 0, Comp: true, Off: byte(r.Intn(32)), Bytes: "51"}},
		{Def: &DefOp{Local: 1, Arch: "le", Global: 20, Fields: [][3]int{{253, 4, 0x86}, {3, 1, 2}}}},
		{Data: &DataOp{Local: 1, Bytes: le32(ts) + "52"}},
		{Data: &DataOp{Local: 0, Comp: true, Off: byte(r.Intn(32)), Bytes: "53"}},
	}})
	// 2. monitoring_b: local timestamp before any timestamp, then with one
	out = append(out, &RecStream{Header: hdr(), Ops: []Op{
		{Def: &DefOp{Local: 2, Arch: "le", Global: 0, Fields: [][3]int{{0, 1, 0}}}},
		{Data: &DataOp{Local: 2, Bytes: "20"}},
		{Def: &DefOp{Local: 3, Arch: "le", Global: 55, Fields: [][3]int{{11, 4, 0x86}}}},
		{Data: &DataOp{Local: 3, Bytes: le32(ts + 7200)}},
		{Def: &DefOp{Local: 4, Arch: "le", Global: 55, Fields: [][3]int{{253, 4, 0x86}, {11, 4, 0x86}}}},
		{Data: &DataOp{Local: 4, Bytes: le32(ts+10) + le32(ts+3610)}},
	}})
	// 2b. siblings of 2 whose local offsets differ by seconds only (3600 / 3630 / 7 / -3599):
	// anything cached per "rounded" offset is handed to the wrong file
	for _, off := range []int64{3600, 3630, 7, -3599} {
		out = append(out, &RecStream{Header: hdr(), Ops: []Op{
			{Def: &DefOp{Local: 2, Arch: "le", Global: 0, Fields: [][3]int{{0, 1, 0}}}},
			{Data: &DataOp{Local: 2, Bytes: "20"}},
			{Def: &DefOp{Local: 4, Arch: "le", Global: 55, Fields: [][3]int{{253, 4, 0x86}, {11, 4, 0x86}}}},
			{Data: &DataOp{Local: 4, Bytes: le32(ts+10) + le32(uint32(int64(ts+10)+off))}},
			{Data: &DataOp{Local: 4, Bytes: le32(ts+20) + le32(uint32(int64(ts+20)+off))}},
		}})
	}
	// 2c. the same field once with a legal base type byte and once with the same type
	// number but the wrong multi-byte flag (must be rejected, whichever comes first)
	for _, tb := range []int{0x83, 0x03, 0x84, 0x04, 0x02, 0x82} {
		out = append(out, &RecStream{Header: hdr(), Ops: []Op{
			{Def: &DefOp{Local: 0, Arch: "le", Global: 0, Fields: [][3]int{{0, 1, 0}}}},
			{Data: &DataOp{Local: 0, Bytes: "04"}},
			{Def: &DefOp{Local: 1, Arch: "le", Global: 20, Fields: [][3]int{{3, 1, 2}, {200, 2, tb}}}},
			{Data: &DataOp{Local: 1, Bytes: "501234"}},
		}})
	}
	// 3. activity: activity.local_timestamp only
	out = append(out, &RecStream{Header: hdr(), Ops: []Op{
		{Def: &DefOp{Local: 0, Arch: "be", Global: 0, Fields: [][3]int{{0, 1, 0}}}},
		{Data: &DataOp{Local: 0, Bytes: "04"}},
		{Def: &DefOp{Local: 7, Arch: "le", Global: 34, Fields: [][3]int{{5, 4, 0x86}}}},
		{Data: &DataOp{Local: 7, Bytes: le32(ts - 3600)}},
	}})
	// 4. a data record for a local type that was never defined (must fail the same way every time)
	out = append(out, &RecStream{Header: hdr(), Ops: []Op{
		{Def: &DefOp{Local: 1, Arch: "le", Global: 0, Fields: [][3]int{{0, 1, 0}}}},
		{Data: &DataOp{Local: 1, Bytes: "04"}},
		{Def: &DefOp{Local: 2, Arch: "le", Global: 20, Fields: [][3]int{{3, 1, 2}}}},
		{Data: &DataOp{Local: 2, Bytes: "40"}},
		{Data: &DataOp{Local: []byte{3, 7, 11, 14}[r.Intn(4)], Bytes: "41"}},
		{Data: &DataOp{Local: 2, Bytes: "42"}},
	}})
	// 5. the same local types as 4, but defined: run before 4 it leaves definitions behind
	out = append(out, &RecStream{Header: hdr(), Ops: []Op{
		{Def: &DefOp{Local: 1, Arch: "le", Global: 0, Fields: [][3]int{{0, 1, 0}}}},
		{Data: &DataOp{Local: 1, Bytes: "04"}},
		{Def: &DefOp{Local: 3, Arch: "le", Global: 20, Fields: [][3]int{{3, 1, 2}}}},
		{Def: &DefOp{Local: 7, Arch: "le", Global: 20, Fields: [][3]int{{3, 1, 2}}}},
		{Def: &DefOp{Local: 11, Arch: "le", Global: 20, Fields: [][3]int{{3, 1, 2}}}},
		{Def: &DefOp{Local: 14, Arch: "le", Global: 20, Fields: [][3]int{{3, 1, 2}}}},
		{Data: &DataOp{Local: 3, Bytes: "60"}},
		{Data: &DataOp{Local: 14, Bytes: "61"}},
	}})
	return out
}

// jumboOps builds a definition with very many fields (170-255, so that the
// definition itself is up to 765 bytes) plus up to 255 developer fields, and
// 1-2 data records for it whose length can exceed several 4096-byte buffer
// fills. The message is either unknown or hrv (one listed field) with
// unlisted field numbers, so the model skips everything by size; what is
// checked is that neighbours are not disturbed, framing, and counters.
func jumboOps(r *Rng, local byte) []Op {
	d := &DefOp{Local: local, Arch: []string{"le", "be"}[r.Intn(2)], Global: 78}
	if r.Bool() {
		d.Global = unknownGlobal(r)
	}
	nf := r.Range(170, 254)
	total := 0
	for i := 0; i < nf; i++ {
		num := 1 + i // 1..254, each once: unlisted for hrv (only field 0 is listed)
		b := baseOf(anyBases[r.Intn(len(anyBases))])
		size := b.Size
		switch r.Intn(8) {
		case 0:
			size = b.Size * r.Range(1, 255/b.Size)
		case 1:
			size = b.Size * r.Range(1, 4)
		}
		if b.String {
			size = r.Range(1, 40)
		}
		d.Fields = append(d.Fields, [3]int{num, size, int(b.Byte)})
		total += size
	}
	switch r.Intn(4) {
	case 0, 1:
		for k := r.Range(1, 255); k > 0; k-- {
			sz := r.Range(0, 6)
			d.Dev = append(d.Dev, [3]int{r.Intn(256), sz, r.Intn(8)})
			total += sz
		}
	case 2:
		// the largest developer-field list there is, without a single zero byte:
		// whatever scratch space the decoder reads definitions into is left
		// completely non-zero for the records that follow
		for k := 0; k < 255; k++ {
			sz := r.Range(1, 3)
			d.Dev = append(d.Dev, [3]int{1 + r.Intn(255), sz, 1 + r.Intn(7)})
			total += sz
		}
	}
	ops := []Op{{Def: d}}
	for k := r.Range(1, 2); k > 0; k-- {
		ops = append(ops, Op{Data: &DataOp{Local: local, Bytes: hexs(r.Bytes(total))}})
	}
	return ops
}

// withJumbo inserts jumbo operations into a stream at a position after the
// file_id record, on a local type that no later data record uses before it is
// redefined.
func withJumbo(r *Rng, rs *RecStream) {
	if len(rs.Ops) < 2 {
		return
	}
	pos := r.Range(2, len(rs.Ops))
	// a local type that is not used by any data op after pos until redefined: simplest
	// is a type no later op touches at all
	used := map[byte]bool{}
	for _, op := range rs.Ops[pos:] {
		if op.Def != nil {
			used[op.Def.Local&15] = true
		}
		if op.Data != nil {
			if op.Data.Comp {
				used[op.Data.Local&3] = true
			} else {
				used[op.Data.Local&15] = true
			}
		}
	}
	local := byte(255)
	for l := 15; l >= 0; l-- {
		if !used[byte(l)] {
			local = byte(l)
			break
		}
	}
	if local == 255 {
		pos = len(rs.Ops)
		local = byte(r.Intn(16))
	}
	j := jumboOps(r, local)
	no := append([]Op{}, rs.Ops[:pos]...)
	no = append(no, j...)
	no = append(no, rs.Ops[pos:]...)
	rs.Ops = no
}

// manyDefsStream: a definition that stays live on one local type while n
// (more than 256) distinct other definitions pass through the remaining local
// types, then records for the first one again - anything that keeps
// definitions in a bounded table (256 entries, one byte of index, a ring) must
// not lose or replace a definition that is still in force.
func manyDefsStream(r *Rng, n int) *RecStream {
	g := &streamGen{r: r, o: StreamOpts{FT: 4, Arch: 2}}
	g.emitDef(&DefOp{Local: 0, Arch: g.arch(), Global: 0, Fields: [][3]int{{0, 1, 0}}})
	g.emitData(0, false, 0, []byte{4})
	keep := byte(1 + r.Intn(15))
	kd := &DefOp{Local: keep, Arch: g.arch(), Global: 20, Fields: [][3]int{{3, 1, 2}, {4, 1, 2}, {7, 2, 0x84}}}
	g.emitDef(kd)
	rec := func() {
		b := []byte{byte(1 + r.Intn(200)), byte(1 + r.Intn(200)), 0, 0}
		putN(b[2:], kd.be(), uint64(r.Intn(2000)))
		g.emitData(keep, false, 0, b)
	}
	rec()
	for i := 0; i < n; i++ {
		l := byte(r.Intn(16))
		for l == keep || l == 0 {
			l = byte(r.Intn(16))
		}
		d := &DefOp{Local: l, Arch: g.arch(), Global: 0xFF00 + uint16(i%200)}
		nf := 1 + i%3
		tot := 0
		for k := 0; k < nf; k++ {
			sz := 1 + (i/3+k)%4
			d.Fields = append(d.Fields, [3]int{1 + (i+k*7)%250, sz, 0x0D})
			tot += sz
		}
		// make the field bytes distinct per definition
		d.Fields[0][0] = 1 + i%250
		d.Fields[0][1] = 1 + (i/250)%6
		tot = 0
		for _, fd := range d.Fields {
			tot += fd[1]
		}
		g.emitDef(d)
		if r.Chance(1, 3) {
			g.emitData(l, false, 0, r.Bytes(tot))
		}
		if r.Chance(1, 40) {
			rec()
		}
	}
	rec()
	rec()
	if r.Bool() {
		// the file's very first definition is still in force too: a second file_id
		// record of the same type under it
		g.emitData(0, false, 0, []byte{4})
	}
	return &RecStream{Header: HeaderSpec{Size: 12 + 2*r.Intn(2), Proto: 0x20, Profile: 2115, HCRC: "ok"}, Ops: g.ops}
}

// flipStreamArch returns a copy of rs in which every definition declares the
// other byte order and the multi-byte elements of every record are swapped
// accordingly: the same field lists, byte for byte, under the opposite
// architecture flag.
func flipStreamArch(rs *RecStream) *RecStream {
	out := &RecStream{Header: rs.Header}
	var defs [16]*DefOp
	for _, op := range rs.Ops {
		switch {
		case op.Def != nil:
			nd := *op.Def
			if nd.Arch == "be" {
				nd.Arch = "le"
			} else {
				nd.Arch = "be"
			}
			defs[nd.Local&15] = &nd
			out.Ops = append(out.Ops, Op{Def: &nd})
		case op.Data != nil:
			l := op.Data.Local & 15
			if op.Data.Comp {
				l = op.Data.Local & 3
			}
			d := defs[l]
			nd := *op.Data
			if d != nil {
				b := unhex(nd.Bytes)
				off := 0
				for _, fd := range d.Fields {
					bi := baseOf(byte(fd[2]))
					if bi != nil && bi.Size > 1 && !bi.String {
						for e := off; e+bi.Size <= off+fd[1] && e+bi.Size <= len(b); e += bi.Size {
							for x, y := e, e+bi.Size-1; x < y; x, y = x+1, y-1 {
								b[x], b[y] = b[y], b[x]
							}
						}
					}
					off += fd[1]
				}
				nd.Bytes = hexs(b)
			}
			out.Ops = append(out.Ops, Op{Data: &nd})
		default:
			out.Ops = append(out.Ops, op)
		}
	}
	return out
}
