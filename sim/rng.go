package main

// One integer decides everything: every generator draws from an Rng whose
// state is derived from (VERIF_SEED, property id, scenario index) by splitmix64
// and nothing else. Executing a (closed) scenario never draws.

type Rng struct{ s uint64 }

func splitmix(x uint64) uint64 {
	x += 0x9E3779B97F4A7C15
	z := x
	z = (z ^ (z >> 30)) * 0xBF58476D1CE4E5B9
	z = (z ^ (z >> 27)) * 0x94D049BB133111EB
	return z ^ (z >> 31)
}

func hashStr(s string) uint64 {
	h := uint64(0xcbf29ce484222325)
	for i := 0; i < len(s); i++ {
		h ^= uint64(s[i])
		h *= 0x100000001b3
	}
	return h
}

func NewRng(seed uint64, family string, index int) *Rng {
	s := splitmix(seed)
	s = splitmix(s ^ hashStr(family))
	s = splitmix(s ^ uint64(index)*0x9E3779B97F4A7C15)
	return &Rng{s: s}
}

func (r *Rng) U64() uint64 {
	r.s += 0x9E3779B97F4A7C15
	z := r.s
	z = (z ^ (z >> 30)) * 0xBF58476D1CE4E5B9
	z = (z ^ (z >> 27)) * 0x94D049BB133111EB
	return z ^ (z >> 31)
}

// Intn returns a value in [0,n). n<=0 returns 0.
func (r *Rng) Intn(n int) int {
	if n <= 1 {
		return 0
	}
	return int(r.U64() % uint64(n))
}

// Range returns a value in [lo,hi].
func (r *Rng) Range(lo, hi int) int {
	if hi <= lo {
		return lo
	}
	return lo + r.Intn(hi-lo+1)
}

func (r *Rng) Bool() bool { return r.U64()&1 == 1 }

// Chance is true with probability num/den.
func (r *Rng) Chance(num, den int) bool { return r.Intn(den) < num }

func (r *Rng) Byte() byte { return byte(r.U64()) }

func (r *Rng) Bytes(n int) []byte {
	b := make([]byte, n)
	for i := range b {
		b[i] = r.Byte()
	}
	return b
}

func (r *Rng) Pick(n int) int { return r.Intn(n) }

// Perm returns a permutation of 0..n-1.
func (r *Rng) Perm(n int) []int {
	p := make([]int, n)
	for i := range p {
		p[i] = i
	}
	for i := n - 1; i > 0; i-- {
		j := r.Intn(i + 1)
		p[i], p[j] = p[j], p[i]
	}
	return p
}
