package main

import (
	"runtime"
	"sync"
)

// Cooperative scheduler for engine conc (DESIGN 2.4). Tasks are real
// goroutines; each is parked at every seam call (Read/Write/Log) and exactly
// one is released at a time, chosen by the scenario's task schedule. The
// hand-off uses plain loads and stores inside //go:norace leaf functions,
// spinning on runtime.Gosched(), so it creates NO happens-before edge between
// tasks: the race detector sees two tasks that touch the same package-level
// variable as unordered and reports the race deterministically, although the
// accesses were physically serialised.

type Sched struct {
	turn     int // task id that may run; -1 = scheduler
	done     []bool
	plan     []int
	tail     string
	k        int
	last     int
	switches int
	overlap  int    // switches taken while >= 2 tasks were unfinished
	hash     uint64 // hash of the realised schedule
	realised []int
}

//go:norace
func (s *Sched) loadTurn() int { return s.turn }

//go:norace
func (s *Sched) storeTurn(v int) { s.turn = v }

//go:norace
func (s *Sched) setDone(t int) { s.done[t] = true }

//go:norace
func (s *Sched) isDone(t int) bool { return s.done[t] }

//go:norace
func (s *Sched) waitFor(t int) {
	for s.loadTurn() != t {
		runtime.Gosched()
	}
}

// Yield is called by a task at every seam call.
//
//go:norace
func (s *Sched) Yield(task int) {
	s.storeTurn(-1)
	s.waitFor(task)
}

//go:norace
func (s *Sched) finish(task int) {
	s.setDone(task)
	s.storeTurn(-1)
}

//go:norace
func (s *Sched) runnable() []int {
	var r []int
	for i := range s.done {
		if !s.isDone(i) {
			r = append(r, i)
		}
	}
	return r
}

//go:norace
func (s *Sched) pick(run []int) int {
	if s.k < len(s.plan) {
		c := s.plan[s.k]
		s.k++
		for _, r := range run {
			if r == c {
				return c
			}
		}
	}
	if s.tail == "rr" {
		for _, r := range run {
			if r > s.last {
				return r
			}
		}
	}
	return run[0]
}

// loop runs on the caller's goroutine until every task finished.
//
//go:norace
func (s *Sched) loop() {
	s.hash = 0xcbf29ce484222325
	for {
		s.waitFor(-1)
		run := s.runnable()
		if len(run) == 0 {
			return
		}
		c := s.pick(run)
		if c != s.last {
			s.switches++
			if len(run) >= 2 {
				s.overlap++
			}
		}
		s.last = c
		s.hash = (s.hash ^ uint64(c+1)) * 0x100000001b3
		if len(s.realised) < 4096 {
			s.realised = append(s.realised, c)
		}
		s.storeTurn(c)
	}
}

type concInfo struct {
	Switches int    `json:"switches"`
	Overlap  int    `json:"overlap"`
	Hash     uint64 `json:"hash"`
	Realised []int  `json:"realised,omitempty"`
}

var lastConc concInfo

// runScenarioConc executes all tasks concurrently under the scheduler.
// Encode-of-result tasks are not supported here (tasks are independent).
func runScenarioConc(sc *Scenario) []*Result {
	media := sc.buildMedia()
	n := len(sc.Tasks)
	s := &Sched{turn: -1, done: make([]bool, n), plan: sc.Schedule, tail: sc.SchedPol, last: -1}
	results := make([]*Result, n)
	// The WaitGroup orders "task finished" before "main reads the results" and
	// nothing else: Done is a release, only Wait acquires, so no edge between
	// tasks is created.
	var wg sync.WaitGroup
	wg.Add(n)
	for i := range sc.Tasks {
		i := i
		t := &sc.Tasks[i]
		t.ID = i
		go func() {
			s.waitFor(i)
			results[i] = runTask(t, media, s, nil)
			s.finish(i)
			wg.Done()
		}()
	}
	s.loop()
	wg.Wait()
	recheckReturned(results)
	lastConc = concInfo{Switches: s.switches, Overlap: s.overlap, Hash: s.hash, Realised: s.realised}
	return results
}
