package main

import (
	"bytes"
	"crypto/sha256"
	"encoding/hex"
	"encoding/json"
	"fmt"
	"os"
	"os/exec"
	"path/filepath"
	"strings"
	"time"
)

// Fresh-process execution (engines hist and conc). The simulator's "restart:
// only durable state survives" - and this library has no durable state - is a
// new OS process that performs the call first.

type execOutput struct {
	Results []*Result `json:"results"`
	Conc    *concInfo `json:"conc,omitempty"`
}

type procResult struct {
	Out      *execOutput
	RaceLog  string
	Died     string // non-empty: the process died (stderr tail)
	ExitCode int
}

func scratchDir() string {
	d := filepath.Join(verifRoot(), ".build", "scratch")
	os.MkdirAll(d, 0o755)
	return d
}

// runFresh executes a scenario in a fresh OS process. race selects the -race binary.
func runFresh(sc *Scenario, race bool) *procResult {
	f, err := os.CreateTemp(scratchDir(), "sc-*.json")
	if err != nil {
		fatalInfra("scratch: %v", err)
	}
	f.Write(sc.JSON())
	f.Close()
	defer os.Remove(f.Name())
	bin := selfExe()
	env := os.Environ()
	raceBase := ""
	if race {
		bin = os.Getenv("FITSIM_RACE_BIN")
		if bin == "" {
			fatalInfra("engine conc needs FITSIM_RACE_BIN (run through ./check)")
		}
		raceBase = f.Name() + ".race"
		env = append(env, "GORACE=halt_on_error=0 atexit_sleep_ms=0 log_path="+raceBase)
	}
	cmd := exec.Command(bin, "exec", f.Name())
	// One P: every task shares the same per-P caches (sync.Pool private slots), so an
	// object handed from one task to another through a pool is seen; the scheduler
	// serialises the tasks anyway.
	cmd.Env = append(env, "GOMAXPROCS=1")
	var so, se bytes.Buffer
	cmd.Stdout, cmd.Stderr = &so, &se
	if err := cmd.Start(); err != nil {
		fatalInfra("start %s: %v", bin, err)
	}
	done := make(chan error, 1)
	go func() { done <- cmd.Wait() }()
	pr := &procResult{}
	select {
	case err = <-done:
	case <-time.After(120 * time.Second):
		cmd.Process.Kill()
		<-done
		pr.Died = "timeout: no result within 120 s"
		return pr
	}
	if race {
		ms, _ := filepath.Glob(raceBase + ".*")
		for _, m := range ms {
			b, _ := os.ReadFile(m)
			pr.RaceLog += string(b)
			os.Remove(m)
		}
	}
	if err != nil {
		if ee, ok := err.(*exec.ExitError); ok {
			pr.ExitCode = ee.ExitCode()
		}
		if pr.ExitCode == 2 {
			fatalInfra("fresh process reported an infrastructure error: %s", tail(se.String(), 400))
		}
		// with GORACE halt_on_error=0 the race runtime still exits 66 at the end
		if !(race && pr.ExitCode == 66) {
			pr.Died = fmt.Sprintf("exit %v: %s", err, tail(se.String(), 600))
			return pr
		}
	}
	var eo execOutput
	if e := json.Unmarshal(so.Bytes(), &eo); e != nil {
		pr.Died = fmt.Sprintf("unparsable output (%v): %s", e, tail(se.String(), 400))
		return pr
	}
	pr.Out = &eo
	return pr
}

func tail(s string, n int) string {
	if len(s) > n {
		return "..." + s[len(s)-n:]
	}
	return s
}

// ---- baselines ----

var baseMem = map[string]*Result{}

func baselineDir() string {
	id := os.Getenv("FITSIM_RUN_ID")
	if id == "" {
		id = fmt.Sprintf("solo-%d", os.Getpid())
	}
	d := filepath.Join(verifRoot(), ".build", "baselines-"+id)
	os.MkdirAll(d, 0o755)
	return d
}

// miniScenario builds the minimal history that performs task ti first in a
// fresh process: the task itself, preceded only by the Decode whose result it
// encodes (if any).
func miniScenario(sc *Scenario, ti int) *Scenario {
	t := sc.Tasks[ti]
	ms := &Scenario{V: 1, Property: sc.Property, Engine: "hist"}
	used := map[string]bool{}
	var tasks []Task
	if strings.HasPrefix(t.In, "result:") {
		var dep int
		fmt.Sscan(t.In[len("result:"):], &dep)
		for _, x := range sc.Tasks {
			if x.ID == dep {
				tasks = append(tasks, x)
				used[x.In] = true
			}
		}
	} else if t.In != "" {
		used[t.In] = true
	}
	tasks = append(tasks, t)
	ms.Tasks = tasks
	// media closure
	byID := map[string]*Medium{}
	for i := range sc.Media {
		byID[sc.Media[i].ID] = &sc.Media[i]
	}
	var add func(id string)
	seen := map[string]bool{}
	add = func(id string) {
		if seen[id] || byID[id] == nil {
			return
		}
		seen[id] = true
		for _, c := range byID[id].Chain {
			add(c)
		}
		ms.Media = append(ms.Media, *byID[id])
	}
	for i := range sc.Media {
		if used[sc.Media[i].ID] {
			add(sc.Media[i].ID)
		}
	}
	return ms
}

// baselineFor returns the result of task ti performed first in a fresh process.
func baselineFor(sc *Scenario, ti int, st *Stats) *Result {
	ms := miniScenario(sc, ti)
	sum := sha256.Sum256(ms.JSON())
	key := hex.EncodeToString(sum[:12])
	if r, ok := baseMem[key]; ok {
		return r
	}
	path := filepath.Join(baselineDir(), key+".json")
	if b, err := os.ReadFile(path); err == nil {
		var r Result
		if json.Unmarshal(b, &r) == nil {
			baseMem[key] = &r
			return &r
		}
	}
	pr := runFresh(ms, false)
	if st != nil {
		st.Fault("proc.restart")
	}
	var r *Result
	if pr.Died != "" || pr.Out == nil || len(pr.Out.Results) == 0 {
		r = &Result{Call: sc.Tasks[ti].Call, Panic: "BASELINE PROCESS DIED: " + pr.Died, ErrClass: "panic"}
	} else {
		r = pr.Out.Results[len(pr.Out.Results)-1]
	}
	baseMem[key] = r
	b, _ := json.Marshal(r)
	tmp := path + fmt.Sprintf(".%d", os.Getpid())
	os.WriteFile(tmp, b, 0o644)
	os.Rename(tmp, path)
	return r
}

// ---- known-finding classification shared by C08 and C09 (D11) ----

// onlyCarriedDistance reports whether two dumps of the same File differ only
// in RecordMsg.Distance values, by one constant offset per file (the signature
// of the package-level accumulator carrying over earlier decodes).
func onlyCarriedDistance(got, want []string) bool { return distanceOnly(got, want, true) }

// onlyDistanceDiffers is the weaker signature used under concurrency, where
// several tasks feed the shared accumulator in turn: only RecordMsg.Distance
// values differ, by whatever amounts.
func onlyDistanceDiffers(got, want []string) bool { return distanceOnly(got, want, false) }

func distanceOnly(got, want []string, constant bool) bool {
	if len(got) != len(want) {
		return false
	}
	dp := fieldByName(gRecord, "Distance")
	if dp == nil {
		return false
	}
	var k uint64
	haveK := false
	nd := 0
	for i := range got {
		if got[i] == want[i] {
			continue
		}
		pa, pb := linePath(got[i]), linePath(want[i])
		if pa != pb || !strings.HasPrefix(pa, "Records[") {
			return false
		}
		fa, fb := splitStructFields(got[i][len(pa)+1:]), splitStructFields(want[i][len(pb)+1:])
		if fa == nil || fb == nil || len(fa) != len(fb) {
			return false
		}
		for j := range fa {
			if fa[j] == fb[j] {
				continue
			}
			if j != dp.SIndex {
				return false
			}
			a, ok1 := parseU(fa[j])
			b, ok2 := parseU(fb[j])
			if !ok1 || !ok2 {
				return false
			}
			d := (a - b) & 0xFFFFFFFF
			if constant && haveK && d != k {
				return false
			}
			k, haveK = d, true
			nd++
		}
	}
	return nd > 0
}
