package main

import (
	"encoding/hex"
	"fmt"
	"math"
	"reflect"
	"strconv"
	"strings"
	"time"

	"github.com/tormoder/fit"
)

// Canonical values. The same textual form is produced (a) from real decoded
// messages by reflection and (b) by the reference models, so that an oracle
// comparison is string equality and a mismatch names a path.
//
//	u<dec> unsigned, i<dec> signed, f<hex float64 bits>, s"..." string,
//	b<hex> byte slice, [v v v] slices, nil, t<unix>+<zone offset>, ll<semicircles>

var (
	timeType = reflect.TypeOf(time.Time{})
	latType  = reflect.TypeOf(fit.Latitude{})
	lngType  = reflect.TypeOf(fit.Longitude{})
)

func canonTime(t time.Time) string {
	_, off := t.Zone()
	s := "t" + strconv.FormatInt(t.Unix(), 10) + "+" + strconv.Itoa(off)
	if ns := t.Nanosecond(); ns != 0 {
		s += "." + strconv.Itoa(ns)
	}
	return s
}

func canonTimeVal(unix int64, off int) string {
	return "t" + strconv.FormatInt(unix, 10) + "+" + strconv.Itoa(off)
}

func canonValue(v reflect.Value) string {
	switch v.Kind() {
	case reflect.Uint8, reflect.Uint16, reflect.Uint32, reflect.Uint64, reflect.Uint:
		return "u" + strconv.FormatUint(v.Uint(), 10)
	case reflect.Int8, reflect.Int16, reflect.Int32, reflect.Int64, reflect.Int:
		return "i" + strconv.FormatInt(v.Int(), 10)
	case reflect.Float32, reflect.Float64:
		return "f" + strconv.FormatUint(math.Float64bits(v.Float()), 16)
	case reflect.String:
		return "s" + strconv.Quote(v.String())
	case reflect.Bool:
		if v.Bool() {
			return "true"
		}
		return "false"
	case reflect.Slice:
		if v.IsNil() {
			return "nil"
		}
		if v.Type().Elem().Kind() == reflect.Uint8 && v.Type().Elem().PkgPath() == "" {
			return "b" + hex.EncodeToString(v.Bytes())
		}
		parts := make([]string, v.Len())
		for i := range parts {
			parts[i] = canonValue(v.Index(i))
		}
		return "[" + strings.Join(parts, " ") + "]"
	case reflect.Array:
		parts := make([]string, v.Len())
		for i := range parts {
			parts[i] = canonValue(v.Index(i))
		}
		return "[" + strings.Join(parts, " ") + "]"
	case reflect.Struct:
		switch v.Type() {
		case timeType:
			return canonTime(v.Interface().(time.Time))
		case latType:
			return "ll" + strconv.Itoa(int(v.Interface().(fit.Latitude).Semicircles()))
		case lngType:
			return "ll" + strconv.Itoa(int(v.Interface().(fit.Longitude).Semicircles()))
		}
		return canonStruct(v)
	case reflect.Ptr:
		if v.IsNil() {
			return "nil"
		}
		return canonValue(v.Elem())
	}
	return fmt.Sprintf("?%s", v.Kind())
}

// canonStruct renders the exported fields of a message struct in order.
func canonStruct(v reflect.Value) string {
	t := v.Type()
	parts := make([]string, 0, v.NumField())
	for i := 0; i < v.NumField(); i++ {
		if t.Field(i).PkgPath != "" {
			continue
		}
		parts = append(parts, canonValue(v.Field(i)))
	}
	return "{" + strings.Join(parts, " ") + "}"
}

// File-type numbers and accessor names, from the FIT profile "file" type (not
// from the package constants).
var fileTypeAccessor = map[byte]string{
	1: "Device", 2: "Settings", 3: "Sport", 4: "Activity", 5: "Workout", 6: "Course",
	7: "Schedules", 9: "Weight", 10: "Totals", 11: "Goals", 14: "BloodPressure",
	15: "MonitoringA", 20: "ActivitySummary", 28: "MonitoringDaily", 32: "MonitoringB",
	34: "Segment", 35: "SegmentList",
}

var accessorNames = []string{
	"Activity", "Device", "Settings", "Sport", "Workout", "Course", "Schedules", "Weight",
	"Totals", "Goals", "BloodPressure", "MonitoringA", "ActivitySummary", "MonitoringDaily",
	"MonitoringB", "Segment", "SegmentList",
}

// callAccessor calls f.<name>() by reflection: (container pointer as
// reflect.Value, error).
func callAccessor(f *fit.File, name string) (reflect.Value, error) {
	m := reflect.ValueOf(f).MethodByName(name)
	if !m.IsValid() {
		fatalInfra("accessor %s missing on *fit.File", name)
	}
	out := m.Call(nil)
	var err error
	if !out[1].IsNil() {
		err = out[1].Interface().(error)
	}
	return out[0], err
}

// containerOf returns the container (pointer value) whose accessor matches the
// file's reported type, or an invalid Value.
func containerOf(f *fit.File) reflect.Value {
	name, ok := fileTypeAccessor[byte(f.Type())]
	if !ok {
		return reflect.Value{}
	}
	c, err := callAccessor(f, name)
	if err != nil || c.IsNil() {
		return reflect.Value{}
	}
	return c
}

// dumpFile renders everything a caller can observe of a *fit.File.
func dumpFile(f *fit.File) []string {
	if f == nil {
		return []string{"file=nil"}
	}
	var out []string
	fv := reflect.ValueOf(f).Elem()
	out = append(out, "Header="+canonStruct(fv.FieldByName("Header")))
	out = append(out, "CRC="+canonValue(fv.FieldByName("CRC")))
	out = append(out, "Type=u"+strconv.Itoa(int(f.Type())))
	out = append(out, "FileId="+canonStruct(fv.FieldByName("FileId")))
	out = append(out, "FileCreator="+canonValue(fv.FieldByName("FileCreator")))
	out = append(out, "TimestampCorrelation="+canonValue(fv.FieldByName("TimestampCorrelation")))
	out = append(out, "UnknownMessages="+canonValue(fv.FieldByName("UnknownMessages")))
	out = append(out, "UnknownFields="+canonValue(fv.FieldByName("UnknownFields")))
	// accessor verdicts
	var acc []string
	for _, n := range accessorNames {
		c, err := callAccessor(f, n)
		switch {
		case err != nil:
		case c.IsNil():
			acc = append(acc, n+":nilnil")
		default:
			acc = append(acc, n+":ok")
		}
	}
	out = append(out, "Accessors="+strings.Join(acc, ","))
	c := containerOf(f)
	if !c.IsValid() {
		out = append(out, "Container=none")
		return out
	}
	out = append(out, dumpContainer(c.Elem())...)
	return out
}

func dumpContainer(cv reflect.Value) []string {
	var out []string
	ct := cv.Type()
	for i := 0; i < cv.NumField(); i++ {
		sf := ct.Field(i)
		if sf.PkgPath != "" {
			continue
		}
		fv := cv.Field(i)
		switch fv.Kind() {
		case reflect.Slice:
			if fv.IsNil() {
				// nil and empty are not deeply equal: keep them apart
				out = append(out, sf.Name+".len=nil")
			} else {
				out = append(out, sf.Name+".len=u"+strconv.Itoa(fv.Len()))
			}
			for j := 0; j < fv.Len(); j++ {
				out = append(out, sf.Name+"["+strconv.Itoa(j)+"]="+canonValue(fv.Index(j)))
			}
		default:
			out = append(out, sf.Name+"="+canonValue(fv))
		}
	}
	return out
}

// firstDiff returns the first differing line pair of two dumps ("" if equal),
// refined to the field inside a message when both are message renderings.
func firstDiff(a, b []string) string {
	n := len(a)
	if len(b) < n {
		n = len(b)
	}
	for i := 0; i < n; i++ {
		if a[i] != b[i] {
			return refineDiff(a[i], b[i])
		}
	}
	if len(a) != len(b) {
		if len(a) > n {
			return "extra line: " + a[n]
		}
		return "missing line: " + b[n]
	}
	return ""
}

func linePath(l string) string {
	if i := strings.IndexByte(l, '='); i >= 0 {
		return l[:i]
	}
	return l
}

func refineDiff(a, b string) string {
	pa, pb := linePath(a), linePath(b)
	if pa != pb {
		return fmt.Sprintf("%s vs %s", pa, pb)
	}
	va, vb := a[len(pa)+1:], b[len(pb)+1:]
	fa, fb := splitStructFields(va), splitStructFields(vb)
	if fa != nil && fb != nil && len(fa) == len(fb) {
		for i := range fa {
			if fa[i] != fb[i] {
				return fmt.Sprintf("%s.#%d: %s vs %s", pa, i, clip(fa[i]), clip(fb[i]))
			}
		}
	}
	return fmt.Sprintf("%s: %s vs %s", pa, clip(va), clip(vb))
}

func clip(s string) string {
	if len(s) > 80 {
		return s[:77] + "..."
	}
	return s
}

// splitStructFields splits "{a b [c d] s"x y"}" at top level.
func splitStructFields(s string) []string {
	if len(s) < 2 || s[0] != '{' || s[len(s)-1] != '}' {
		return nil
	}
	s = s[1 : len(s)-1]
	var out []string
	depth := 0
	inq := false
	start := 0
	for i := 0; i < len(s); i++ {
		c := s[i]
		if inq {
			if c == '\\' {
				i++
			} else if c == '"' {
				inq = false
			}
			continue
		}
		switch c {
		case '"':
			inq = true
		case '[', '{':
			depth++
		case ']', '}':
			depth--
		case ' ':
			if depth == 0 {
				out = append(out, s[start:i])
				start = i + 1
			}
		}
	}
	if start <= len(s) && len(s) > 0 {
		out = append(out, s[start:])
	}
	return out
}

func dumpHash(lines []string) uint64 {
	h := uint64(0xcbf29ce484222325)
	for _, l := range lines {
		h = h*0x100000001b3 ^ hashStr(l)
	}
	return h
}
