package main

import (
	"fmt"
)

// C13 - local message types: the latest definition wins, slots are independent,
// a data record for an undefined local type is an error.

type propC13 struct {
	seed  uint64
	tier  string
	count int
}

func init() { register(&propC13{}) }

func (p *propC13) ID() string     { return "C13" }
func (p *propC13) Engine() string { return "rx" }
func (p *propC13) Level() string  { return "exploration" }
func (p *propC13) Rule() string {
	return "scenario = 20-200 record operations over the 16 local types: definitions of different hosted (and unknown) messages with different field lists, sizes and byte orders, data records, compressed-timestamp records on types 0-3, redefinitions of a type that is in use; in a quarter of the scenarios one data record for a never-defined local type is inserted at a seeded position (sometimes as the very first data record, right behind the file_id definition). Decoded through a seeded read plan; every record is compared with the 16-slot decode model; for the undefined-type case Decode must fail and the partial File must hold exactly the earlier messages. " +
		"key = (local type, change kind message|fields|order, compressed?, live slots); non-trivial when a local type was redefined while another was live"
}
func (p *propC13) Assumptions() []string {
	return []string{
		"independence of slots is decided through the model (each record decodes under the latest definition of its own type), not by a second decode of a reduced stream",
		"reserved bits in record headers are generated as 0",
	}
}
func (p *propC13) ProbeNames() []string {
	return []string{"redefinition switching byte order", "redefinition switching message", "redefinition changing field list", "16 types live at once", "compressed record after redefinition", "undefined type hit", "undefined compressed type hit", "same layout re-emitted with the other byte order", "identical definition re-emitted", "same fields re-emitted with developer fields toggled", "undefined type in the first data record", "more than 256 definitions in one file"}
}

func (p *propC13) Prepare(seed uint64, tier string) int {
	p.seed, p.tier = seed, tier
	p.count = 300000
	if isThorough(tier) {
		p.count = 3000000
	}
	return p.count
}

func (p *propC13) Gen(idx int) *Scenario {
	r := NewRng(p.seed, "C13", idx)
	ft := supportedFileTypes[r.Intn(len(supportedFileTypes))]
	if r.Chance(1, 2) {
		ft = 4
	}
	rs := genStream(r, StreamOpts{FT: ft, NData: r.Range(10, 100), Arch: 2, Unknown: true, Dev: r.Chance(1, 4), Compressed: true, Unhosted: true, MaxFields: 5, Accum: false})
	sc := &Scenario{V: 1, Property: "C13", Engine: "rx", Seed: p.seed, Index: idx, Params: map[string]string{}}
	if idx%53 == 9 {
		// 260-700 distinct definitions pass while one local type keeps its definition
		sc.Family = "many-definitions"
		sc.Media = []Medium{{ID: "m0", Records: manyDefsStream(r, r.Range(260, 700))}}
		sc.Tasks = []Task{{ID: 0, Call: "Decode", In: "m0", Read: genPlan(r, false, true)}}
		return sc
	}
	if r.Chance(1, 3) {
		// re-emit a definition in use: once unchanged, or with only the byte order
		// flipped (same message, same field triples), then send a record under it
		reemitDefinition(r, rs)
	}
	if r.Chance(1, 4) {
		// insert a data record for a never-defined local type after position pos
		pos := r.Range(2, len(rs.Ops))
		first := r.Chance(1, 6) && len(rs.Ops) > 1 && rs.Ops[0].Def != nil && rs.Ops[1].Data != nil
		if first {
			pos = 1 // the very first data record of the file: right behind the file_id definition
		}
		defined := map[byte]bool{}
		for _, op := range rs.Ops[:pos] {
			if op.Def != nil {
				defined[op.Def.Local&15] = true
			}
		}
		var free []byte
		comp := r.Chance(1, 3)
		lim := 16
		if comp {
			lim = 4
		}
		for l := 0; l < lim; l++ {
			if !defined[byte(l)] {
				free = append(free, byte(l))
			}
		}
		if len(free) > 0 {
			l := free[r.Intn(len(free))]
			bad := Op{Data: &DataOp{Local: l, Comp: comp, Off: byte(r.Intn(32)), Bytes: hexs(r.Bytes(r.Range(0, 6)))}}
			if first {
				// same payload as the real file_id record, which still follows: a decoder
				// that ignores the local type of the first record would accept the stream
				bad.Data.Bytes = rs.Ops[1].Data.Bytes
				bad.Data.Comp = false
			}
			ops := append([]Op{}, rs.Ops[:pos]...)
			ops = append(ops, bad)
			ops = append(ops, rs.Ops[pos:]...)
			rs.Ops = ops
			sc.Params["undefined_at"] = itoa(pos)
		}
	}
	sc.Media = []Medium{{ID: "m0", Records: rs}}
	sc.Tasks = []Task{{ID: 0, Call: "Decode", In: "m0", Read: genPlan(r, false, true)}}
	return sc
}

func (p *propC13) Check(sc *Scenario, st *Stats) []Violation {
	var vs []Violation
	if len(sc.Media) == 0 || sc.Media[0].Records == nil || len(sc.Tasks) == 0 {
		return nil
	}
	rs := sc.Media[0].Records
	mo := interpret(rs.Ops)
	upto := len(rs.Ops)
	if mo.ErrOp >= 0 {
		upto = mo.ErrOp
	}
	if mo.ErrOp == 1 && rs.Ops[0].Def != nil && rs.Ops[0].Def.Global == 0 && rs.Ops[1].Data != nil {
		// the very first data record names a local type without definition:
		// the only requirement is the error (there is no File to compare yet)
		r := runTask(&sc.Tasks[0], sc.buildMedia(), nil, nil)
		st.Observe(r)
		if r.Panic != "" {
			return []Violation{{Property: "C13", Class: "C13/panic", Detail: r.Panic}}
		}
		st.Probe("undefined type in the first data record")
		if r.ErrClass == "nil" {
			return []Violation{{Property: "C13", Class: "C13/undefined-local-type-accepted", Detail: fmt.Sprintf("the first data record is for undefined local type %d (file_id is defined as local type %d), Decode returned nil", rs.Ops[1].Data.Local, rs.Ops[0].Def.Local&15)}}
		}
		return nil
	}
	if !streamSane(rs.Ops[:upto]) {
		return nil
	}
	ft, ok := fileTypeOfOps(rs.Ops)
	if !ok || !isSupportedFileType(ft) {
		return nil
	}
	nid := 0
	for _, m := range mo.Msgs {
		if m.Global == 0 {
			nid++
		}
	}
	if nid != 1 && !(sc.Family == "many-definitions" && nid == 2) {
		return nil
	}
	r := runTask(&sc.Tasks[0], sc.buildMedia(), nil, nil)
	st.Observe(r)
	if r.Panic != "" {
		return []Violation{{Property: "C13", Class: "C13/panic", Detail: r.Panic}}
	}
	// probes
	var defs [16]*DefOp
	live := 0
	redefined := false
	var lastRedef [16]bool
	for i := 0; i < upto; i++ {
		op := &rs.Ops[i]
		if op.Def != nil {
			l := op.Def.Local & 15
			if old := defs[l]; old != nil {
				kind := ""
				if old.Global == op.Def.Global && fmt.Sprint(old.Fields) == fmt.Sprint(op.Def.Fields) && old.Arch == op.Def.Arch && (len(old.Dev) == 0) != (len(op.Def.Dev) == 0) {
					st.Probe("same fields re-emitted with developer fields toggled")
				}
				if old.Global == op.Def.Global && fmt.Sprint(old.Fields) == fmt.Sprint(op.Def.Fields) && fmt.Sprint(old.Dev) == fmt.Sprint(op.Def.Dev) {
					if old.Arch != op.Def.Arch {
						st.Probe("same layout re-emitted with the other byte order")
					} else {
						st.Probe("identical definition re-emitted")
					}
				}
				switch {
				case old.Global != op.Def.Global:
					kind = "message"
					st.Probe("redefinition switching message")
				case old.Arch != op.Def.Arch:
					kind = "order"
					st.Probe("redefinition switching byte order")
				default:
					kind = "fields"
					st.Probe("redefinition changing field list")
				}
				if live >= 2 {
					redefined = true
				}
				lastRedef[l] = true
				st.Key(l, kind, l < 4, live >= 8)
			} else {
				live++
				st.ProbeIf(live == 16, "16 types live at once")
			}
			defs[l] = op.Def
		} else if op.Data != nil && op.Data.Comp {
			l := op.Data.Local & 3
			if lastRedef[l] {
				st.Probe("compressed record after redefinition")
			}
		}
	}
	if redefined {
		st.Nontrivial++
	}
	st.ProbeIf(sc.Family == "many-definitions", "more than 256 definitions in one file")
	if mo.ErrOp >= 0 {
		if rs.Ops[mo.ErrOp].Data.Comp {
			st.Probe("undefined compressed type hit")
		} else {
			st.Probe("undefined type hit")
		}
		if r.ErrClass == "nil" {
			return []Violation{{Property: "C13", Class: "C13/undefined-local-type-accepted", Detail: fmt.Sprintf("op %d is a data record for undefined local type %d, Decode returned nil", mo.ErrOp, rs.Ops[mo.ErrOp].Data.Local)}}
		}
	} else if r.ErrClass != "nil" {
		return []Violation{{Property: "C13", Class: "C13/rejects-wellformed", Detail: "Decode failed: " + r.Err}}
	}
	if r.file == nil {
		return []Violation{{Property: "C13", Class: "C13/no-partial-file", Detail: "no File returned"}}
	}
	diffs := compareFile(r.file, ft, mo.Msgs, compareOpts{skipAccum: true}, st)
	seen := map[string]bool{}
	for _, d := range diffs {
		what := "value"
		if d.Field == "<count>" {
			what = "count"
		}
		cls := "C13/" + what
		if mo.ErrOp >= 0 {
			cls = "C13/partial-" + what
		}
		if seen[cls] {
			continue
		}
		seen[cls] = true
		vs = append(vs, Violation{Property: "C13", Class: cls, Detail: d.String()})
	}
	return vs
}

// reemitDefinition picks a data record, and right before it inserts a copy of
// the definition in force for its local type - identical, or identical except
// for the byte order (the payload of the following records of that type is
// re-encoded for the new order so that the stream stays meaningful).
func reemitDefinition(r *Rng, rs *RecStream) {
	var defs [16]*DefOp
	var cands []int
	for i := range rs.Ops {
		if d := rs.Ops[i].Def; d != nil {
			defs[d.Local&15] = d
		} else if rs.Ops[i].Data != nil && i > 2 {
			cands = append(cands, i)
		}
	}
	if len(cands) == 0 {
		return
	}
	pos := cands[r.Intn(len(cands))]
	// definition in force at pos
	defs = [16]*DefOp{}
	for i := 0; i < pos; i++ {
		if d := rs.Ops[i].Def; d != nil {
			defs[d.Local&15] = d
		}
	}
	do := rs.Ops[pos].Data
	l := do.Local & 15
	if do.Comp {
		l = do.Local & 3
	}
	old := defs[l]
	if old == nil || old.Global == 0 {
		return
	}
	nd := *old
	nd.Fields = append([][3]int{}, old.Fields...)
	mode := r.Intn(4)
	flip := mode >= 2
	oldDevLen, newDevLen := 0, 0
	for _, fd := range old.Dev {
		oldDevLen += fd[1]
	}
	if mode == 1 {
		// same regular fields, developer fields dropped (or added): record length changes
		flip = false
		if len(old.Dev) > 0 {
			nd.Dev = nil
		} else {
			nd.Dev = [][3]int{{r.Intn(256), r.Range(1, 9), r.Intn(4)}}
		}
	}
	for _, fd := range nd.Dev {
		newDevLen += fd[1]
	}
	if mode == 1 {
		// rewrite the developer tail of the records that follow under this definition
		fieldsLen := 0
		for _, fd := range nd.Fields {
			fieldsLen += fd[1]
		}
		ops0 := append([]Op{}, rs.Ops[:pos]...)
		ops0 = append(ops0, Op{Def: &nd})
		for i := pos; i < len(rs.Ops); i++ {
			op := rs.Ops[i]
			if d := op.Def; d != nil && d.Local&15 == l {
				ops0 = append(ops0, rs.Ops[i:]...)
				break
			}
			if dd := op.Data; dd != nil {
				dl := dd.Local & 15
				if dd.Comp {
					dl = dd.Local & 3
				}
				if dl == l {
					b := unhex(dd.Bytes)
					if len(b) >= fieldsLen {
						nb := append(append([]byte{}, b[:fieldsLen]...), r.Bytes(newDevLen)...)
						cp := *dd
						cp.Bytes = hexs(nb)
						op = Op{Data: &cp}
					}
				}
			}
			ops0 = append(ops0, op)
		}
		_ = oldDevLen
		rs.Ops = ops0
		return
	}
	if flip {
		if nd.Arch == "le" {
			nd.Arch = "be"
		} else {
			nd.Arch = "le"
		}
	}
	ops := append([]Op{}, rs.Ops[:pos]...)
	ops = append(ops, Op{Def: &nd})
	ops = append(ops, rs.Ops[pos:]...)
	if flip {
		// swap the bytes of every multi-byte element in the records that follow under this definition
		for i := pos + 1; i < len(ops); i++ {
			if d := ops[i].Def; d != nil && d.Local&15 == l {
				break
			}
			dd := ops[i].Data
			if dd == nil {
				continue
			}
			dl := dd.Local & 15
			if dd.Comp {
				dl = dd.Local & 3
			}
			if dl != l {
				continue
			}
			b := unhex(dd.Bytes)
			off := 0
			for _, fd := range nd.Fields {
				bi := baseOf(byte(fd[2]))
				if bi != nil && bi.Size > 1 && !bi.String {
					for e := off; e+bi.Size <= off+fd[1] && e+bi.Size <= len(b); e += bi.Size {
						for x, y := e, e+bi.Size-1; x < y; x, y = x+1, y-1 {
							b[x], b[y] = b[y], b[x]
						}
					}
				}
				off += fd[1]
			}
			nd2 := *dd
			nd2.Bytes = hexs(b)
			ops[i].Data = &nd2
		}
	}
	rs.Ops = ops
}
