package main

import (
	"strconv"
	"strings"
	"time"
	"unicode/utf8"
)

// Model-File generator (engine pipe): Files built through the public API.

type MFOpts struct {
	InDomain  bool // strictly in-domain values (C06); otherwise 1/8 of the fields out of domain (C05)
	MaxMsgs   int  // per hosted message type
	MaxFields int
	FT        byte // 0 = random supported type
	Accum     bool // allow accumulating component sources on record messages
	AllFields bool // set every field of every message
}

func invalidElemCanon(pf *PField) string {
	bi := baseOf(pf.Base)
	if bi.Signed {
		return "i" + strconv.FormatInt(signExtend(bi.Invalid, bi.Size), 10)
	}
	return "u" + strconv.FormatUint(bi.Invalid, 10)
}

// genCanonValue draws a canonical value for profile field pf. ok=false when the
// field cannot hold any in-domain non-invalid value (e.g. strings of length 1).
func genCanonValue(r *Rng, pf *PField, inDomain bool) (string, bool) {
	bi := baseOf(pf.Base)
	scalar := func() string {
		v := pickValue(r, bi, true)
		if bi.Signed {
			return "i" + strconv.FormatInt(signExtend(v, bi.Size), 10)
		}
		return "u" + strconv.FormatUint(v, 10)
	}
	switch pf.Kind {
	case kindUTC:
		secs := int64(1 + r.U64()%0xFFFFFFFE)
		if r.Chance(1, 8) {
			secs = []int64{1, 0x0FFFFFFF, 0x10000000, 0xFFFFFFFE}[r.Intn(4)]
		}
		return canonTimeVal(fitEpochUnix+secs, 0), true
	case kindLocal:
		off := (r.Intn(57) - 28) * 1800 // +-14 h in half hours
		switch r.Intn(4) {
		case 0:
			off += r.Intn(5) - 2 // a few seconds next to a half-hour zone
		case 1:
			off = r.Intn(2*50400+1) - 50400 // any second within +-14 h
		}
		wall := int64(0x10000000 + r.U64()%0xE0000000)
		if r.Chance(1, 10) {
			wall = int64(1 + r.U64()%0x0FFFFFFF) // a calendar time before July 1998 is a legal local time too
		}
		if r.Chance(1, 5) {
			// a location with daylight saving time: the offset follows from the instant
			// (summer and winter values side by side in one File)
			unix := fitEpochUnix + int64(0x10000000+r.U64()%0x90000000)
			_, o := time.Unix(unix, 0).In(dstZone()).Zone()
			return canonTimeVal(unix, o) + "D", true
		}
		// instant such that wall clock = instant + off
		return canonTimeVal(fitEpochUnix+wall-int64(off), off), true
	case kindLat:
		v := int64(r.Intn(1<<31-1)) - (1<<30 - 1)
		switch r.Intn(10) {
		case 0:
			v = -(1<<30 - 1)
		case 1:
			v = 1<<30 - 1
		case 2:
			v = 0
		}
		return "ll" + strconv.FormatInt(v, 10), true
	case kindLng:
		v := int64(int32(uint32(r.U64())))
		if v == 0x7FFFFFFF {
			v = 0
		}
		return "ll" + strconv.FormatInt(v, 10), true
	}
	if bi.String {
		if pf.Array {
			return "", false // Encode cannot write arrays of strings
		}
		max := int(pf.Length) - 1
		if !inDomain {
			max = 300
		}
		if max < 1 {
			return "", false
		}
		w := asciiWords[r.Intn(len(asciiWords))]
		for len(w) < max && r.Chance(2, 3) {
			w += " " + asciiWords[r.Intn(len(asciiWords))]
		}
		if r.Chance(1, 6) {
			for len(w) < max {
				w += asciiWords[r.Intn(len(asciiWords))]
			}
		}
		// cut at a rune boundary
		for len(w) > max || !utf8.ValidString(w) {
			w = w[:len(w)-1]
		}
		if w == "" {
			return "", false
		}
		return "s" + strconv.Quote(w), true
	}
	if pf.Array {
		max := int(pf.Length)
		n := r.Range(1, max)
		if r.Chance(1, 3) {
			n = max
		}
		if !inDomain {
			n = r.Range(max+1, max+300)
		}
		if byteSliceGo(pf) {
			b := r.Bytes(n)
			if bi.Invalid == 0 {
				for i := range b {
					if b[i] == 0 && r.Bool() {
						b[i] = 7
					}
				}
			}
			return "b" + hexs(b), true
		}
		parts := make([]string, n)
		for i := range parts {
			v := pickValue(r, bi, r.Chance(7, 8))
			if bi.Signed {
				parts[i] = "i" + strconv.FormatInt(signExtend(v, bi.Size), 10)
			} else {
				parts[i] = "u" + strconv.FormatUint(v, 10)
			}
		}
		return "[" + strings.Join(parts, " ") + "]", true
	}
	return scalar(), true
}

func genMsgFields(r *Rng, g uint16, o MFOpts) map[int]string {
	initAccumSources()
	pfs := prof.byMesg[g]
	out := map[int]string{}
	if len(pfs) == 0 {
		return out
	}
	maxf := o.MaxFields
	if maxf <= 0 {
		maxf = 8
	}
	n := r.Range(0, maxf)
	if o.AllFields {
		n = len(pfs)
	}
	if n > len(pfs) {
		n = len(pfs)
	}
	perm := r.Perm(len(pfs))
	for _, pi := range perm[:n] {
		pf := pfs[pi]
		if g == 0 && pf.Num == 0 {
			continue
		}
		if g == gRecord && !o.Accum && accumSources[pf.Num] {
			continue
		}
		inDom := o.InDomain || !r.Chance(1, 8)
		if v, ok := genCanonValue(r, pf, inDom); ok {
			out[pf.SIndex] = v
		}
	}
	// related fields holding the same number (a 16-bit field and its 32-bit
	// "enhanced" twin, as devices write them): an encoder must not treat one
	// of them as redundant
	if r.Chance(1, 3) {
		for _, pf := range pfs {
			if !strings.HasPrefix(pf.Name, "Enhanced") || pf.Array {
				continue
			}
			tw := fieldByName(g, strings.TrimPrefix(pf.Name, "Enhanced"))
			if tw == nil || tw.Array || baseOf(tw.Base).Size != 2 || baseOf(pf.Base).Size != 4 {
				continue
			}
			if g == gRecord && !o.Accum && (accumSources[pf.Num] || accumSources[tw.Num]) {
				continue
			}
			if _, has := out[tw.SIndex]; !has && !r.Chance(1, 2) {
				continue
			}
			v := "u" + strconv.Itoa(r.Intn(0xFFFF))
			out[tw.SIndex], out[pf.SIndex] = v, v
		}
	}
	return out
}

func genModelFile(r *Rng, o MFOpts) *ModelFile {
	ft := o.FT
	if ft == 0 {
		ft = supportedFileTypes[r.Intn(len(supportedFileTypes))]
	}
	mf := &ModelFile{Type: ft, HdrCRC: r.Bool(), Proto: []byte{0x10, 0x20}[r.Intn(2)]}
	if r.Chance(1, 2) {
		mf.StaleSize = uint32(r.U64())
		mf.StaleHCRC = uint16(r.U64())
		mf.StaleCRC = uint16(r.U64())
	}
	mf.FileId = genMsgFields(r, 0, o)
	hs := hostsOf(ft)
	var nums []uint16
	for mn := range hs {
		if mn != 0 {
			nums = append(nums, mn)
		}
	}
	sortU16(nums)
	maxm := o.MaxMsgs
	if maxm <= 0 {
		maxm = 6
	}
	var msgs []MMsg
	for _, mn := range nums {
		h := hs[mn]
		n := r.Range(0, maxm)
		if r.Chance(1, 3) {
			n = 0
		}
		if !h.Slice && n > 1 {
			n = 1
		}
		for i := 0; i < n; i++ {
			msgs = append(msgs, MMsg{Global: mn, Fields: genMsgFields(r, mn, o)})
		}
	}
	// seeded interleaving (per-type order is what counts)
	perm := r.Perm(len(msgs))
	for _, i := range perm {
		mf.Msgs = append(mf.Msgs, msgs[i])
	}
	return mf
}

// ---- array normalisation (compare modulo trailing invalid padding) ----

func stripTrailingInvalid(pf *PField, s string) string {
	if s == "nil" {
		return "[]"
	}
	bi := baseOf(pf.Base)
	if strings.HasPrefix(s, "b") {
		inv := strconv.FormatUint(bi.Invalid&0xFF|0x100, 16)[1:]
		body := s[1:]
		for len(body) >= 2 && body[len(body)-2:] == inv {
			body = body[:len(body)-2]
		}
		if body == "" {
			return "[]"
		}
		return "b" + body
	}
	if strings.HasPrefix(s, "[") {
		inv := invalidElemCanon(pf)
		parts := strings.Fields(s[1 : len(s)-1])
		for len(parts) > 0 && parts[len(parts)-1] == inv {
			parts = parts[:len(parts)-1]
		}
		if len(parts) == 0 {
			return "[]"
		}
		return "[" + strings.Join(parts, " ") + "]"
	}
	return s
}

// truncArray cuts an array canonical value to n elements (profile length).
func truncArray(pf *PField, s string, n int) string {
	if strings.HasPrefix(s, "b") {
		if len(s)-1 > 2*n {
			return s[:1+2*n]
		}
		return s
	}
	if strings.HasPrefix(s, "[") {
		parts := strings.Fields(s[1 : len(s)-1])
		if len(parts) > n {
			parts = parts[:n]
		}
		return "[" + strings.Join(parts, " ") + "]"
	}
	return s
}

// growSlice appends 600-3000 messages of one slice-hosted kind to a model File
// (containers, buffers and counters that were sized for "a few" messages).
func growSlice(r *Rng, mf *ModelFile, o MFOpts) {
	hs := hostsOf(mf.Type)
	var kinds []uint16
	for mn, h := range hs {
		if h.Slice && len(prof.byMesg[mn]) > 0 {
			kinds = append(kinds, mn)
		}
	}
	if len(kinds) == 0 {
		return
	}
	sortU16(kinds)
	g := kinds[r.Intn(len(kinds))]
	n := r.Range(600, 3000)
	for i := 0; i < n; i++ {
		mf.Msgs = append(mf.Msgs, MMsg{Global: g, Fields: genMsgFields(r, g, o)})
	}
}
