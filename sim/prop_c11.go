package main

import (
	"fmt"
	"strings"
)

// C11 - truncation and read faults never yield silent success; partial Files
// hold exactly the messages that were complete.

type c11Stream struct {
	name   string
	med    []Medium // media; last one is "m0"
	bytes  []byte
	frames []*Frame
}

type propC11 struct {
	seed    uint64
	tier    string
	streams []c11Stream
	offsets [][]int // per stream: fault offsets
	cum     []int   // cumulative scenario counts
	count   int

	baseCache   map[string]*Result
	prefixCache map[string][]string
}

func init() { register(&propC11{}) }

func (p *propC11) ID() string     { return "C11" }
func (p *propC11) Engine() string { return "rx" }
func (p *propC11) Level() string  { return "fault_enumeration" }
func (p *propC11) Rule() string {
	return "enumeration: for every stream of the pool (single frames and chains of 2-3 frames) x every entry point x fault kind (cut.eof, cut.eof+data, fail.sticky, fail.with_data, fail.unexpected_eof = the reader itself reports io.ErrUnexpectedEOF) x read policy (full, short k7, one, zk5 = a (0,nil) stutter before every 5-byte read) x every byte offset k in [0,len] (quick: every offset of frames <= 8 KiB; thorough: frames up to 60 KB, every offset of frames <= 32 KiB, structural + 4096-multiples + 2000 seeded offsets above); " +
		"key = (entry point, fault kind, structural class of k, policy); non-trivial when the reader actually reached k"
}
func (p *propC11) Assumptions() []string {
	return []string{
		"streams in the pool are valid (wire parser and plain Decode agree)",
		"'messages complete before k' is evaluated differentially: the partial File must equal Decode of the frame rebuilt from exactly the records that end at or before k (header and CRC excluded)",
		"DecodeChained with a clean cut at offset 0 is a don't-care (the statement's exception speaks of file boundaries of a chained stream; whether offset 0 is one is ambiguous)",
		"inputs carrying accumulated component sources are excluded (known finding D11)",
	}
}
func (p *propC11) ProbeNames() []string {
	return []string{"k on chain boundary", "k inside stored CRC", "k on a 4096 multiple", "with_data variant delivered bytes and error together", "partial File non-empty", "k inside header", "k inside a definition", "k inside a data record"}
}

var c11Calls = []string{"Decode", "DecodeChained", "CheckIntegrity", "CheckIntegrityHeader", "DecodeHeader", "DecodeHeaderAndFileID"}
var c11Kinds = []string{"cut.eof", "cut.eof_with_data", "fail.sticky", "fail.with_data", "fail.unexpected_eof"}
var c11Plans = []ReadPlan{{Tail: "full"}, {Tail: "k7"}, {Tail: "one"}, {Tail: "zk5"}}

func (p *propC11) Prepare(seed uint64, tier string) int {
	p.seed, p.tier = seed, tier
	p.baseCache = map[string]*Result{}
	p.prefixCache = map[string][]string{}
	p.streams = nil
	maxAll := 8192
	maxCorpus := 2200
	nModel := 10
	if isThorough(tier) {
		maxAll = 32768
		maxCorpus = 60000
		nModel = 40
	}
	var singles []poolEntry
	for _, e := range corpusFrames(maxCorpus, false) {
		singles = append(singles, e)
	}
	for i := 0; i < nModel; i++ {
		r := NewRng(seed, "C11/pool", i)
		ft := supportedFileTypes[r.Intn(len(supportedFileTypes))]
		rs := genStream(r, StreamOpts{FT: ft, NData: r.Range(1, 12), Arch: 2, Unknown: true, Dev: true, Compressed: true, Unhosted: true, Hdr14: r.Bool(), HCRCZero: r.Chance(1, 4)})
		if i == 0 {
			// one stream whose data area crosses a 4096-byte buffer fill
			padStream(rs, 4200)
		}
		b := rs.Build()
		f := parseFrame(b, 0)
		if f == nil || len(f.Problems) > 0 || !plainDecodeOK(b) {
			continue
		}
		singles = append(singles, poolEntry{Name: fmt.Sprintf("model%d", i), Bytes: b, Med: Medium{Records: rs}, FT: ft})
	}
	singles = append(singles, crcEngineeredStreams()...)
	singles = append(singles, zeroWidthStream())
	if len(singles) == 0 {
		fatalInfra("C11: empty pool")
	}
	for _, e := range singles {
		m := e.Med
		m.ID = "m0"
		fr, _ := parseChain(e.Bytes)
		p.streams = append(p.streams, c11Stream{name: e.Name, med: []Medium{m}, bytes: e.Bytes, frames: fr})
	}
	// chains of 2-3 small frames
	nChains := 4
	if isThorough(tier) {
		nChains = 12
	}
	var small []poolEntry
	for _, e := range singles {
		if len(e.Bytes) <= 1200 {
			small = append(small, e)
		}
	}
	for c := 0; c < nChains && len(small) > 0; c++ {
		r := NewRng(seed, "C11/chain", c)
		n := r.Range(2, 3)
		var meds []Medium
		var ids []string
		var b []byte
		name := "chain("
		for i := 0; i < n; i++ {
			e := small[r.Intn(len(small))]
			m := e.Med
			m.ID = fmt.Sprintf("f%d", i)
			meds = append(meds, m)
			ids = append(ids, m.ID)
			b = append(b, e.Bytes...)
			name += e.Name + ","
		}
		meds = append(meds, Medium{ID: "m0", Chain: ids})
		fr, _ := parseChain(b)
		p.streams = append(p.streams, c11Stream{name: name + ")", med: meds, bytes: b, frames: fr})
	}
	// offsets
	p.offsets = nil
	p.cum = nil
	total := 0
	per := len(c11Calls) * len(c11Kinds) * len(c11Plans)
	for si, s := range p.streams {
		var offs []int
		n := len(s.bytes)
		if n <= maxAll {
			for k := 0; k <= n; k++ {
				offs = append(offs, k)
			}
		} else {
			set := map[int]bool{0: true, n: true}
			for _, f := range s.frames {
				for _, x := range []int{f.Start, f.Start + 1, f.Start + f.HeaderSize - 1, f.Start + f.HeaderSize, f.End - 3, f.End - 2, f.End - 1, f.End} {
					set[x] = true
				}
				for i, rec := range f.Records {
					if i < 400 || i%37 == 0 {
						set[rec.Start], set[rec.End-1] = true, true
					}
				}
			}
			for k := 4096; k < n; k += 4096 {
				set[k-1], set[k], set[k+1] = true, true, true
			}
			r := NewRng(seed, "C11/offsets", si)
			for i := 0; i < 2000; i++ {
				set[r.Intn(n+1)] = true
			}
			for k := range set {
				if k >= 0 && k <= n {
					offs = append(offs, k)
				}
			}
			sortInts(offs)
		}
		p.offsets = append(p.offsets, offs)
		total += len(offs) * per
		p.cum = append(p.cum, total)
	}
	p.count = total
	return total
}

func sortInts(a []int) {
	// small helper without importing sort in every file
	for i := 1; i < len(a); i++ {
		for j := i; j > 0 && a[j] < a[j-1]; j-- {
			a[j], a[j-1] = a[j-1], a[j]
		}
	}
}

func (p *propC11) locate(idx int) (si, ci, ki, pi, oi int) {
	lo := 0
	for si = 0; si < len(p.cum); si++ {
		if idx < p.cum[si] {
			break
		}
		lo = p.cum[si]
	}
	// offset-major inside a stream: the 72 (call, kind, plan) variants of one
	// offset are neighbours, so the prefix decode for "records complete before k"
	// is needed by consecutive scenarios and a tiny cache suffices
	x := idx - lo
	pi = x % len(c11Plans)
	x /= len(c11Plans)
	ki = x % len(c11Kinds)
	x /= len(c11Kinds)
	ci = x % len(c11Calls)
	x /= len(c11Calls)
	oi = x % len(p.offsets[si])
	return
}

func (p *propC11) Gen(idx int) *Scenario {
	if idx < 0 || idx >= p.count {
		return nil
	}
	si, ci, ki, pi, oi := p.locate(idx)
	s := &p.streams[si]
	k := p.offsets[si][oi]
	sc := &Scenario{V: 1, Property: "C11", Engine: "rx", Seed: p.seed, Index: idx, Family: c11Kinds[ki],
		Media: s.med, Params: map[string]string{"stream": s.name}}
	plan := c11Plans[pi]
	switch c11Kinds[ki] {
	case "cut.eof":
		plan.Cut = &FaultAt{At: k}
	case "cut.eof_with_data":
		plan.Cut = &FaultAt{At: k, WithData: true}
	case "fail.sticky":
		plan.Fail = &FaultAt{At: k}
	case "fail.with_data":
		plan.Fail = &FaultAt{At: k, WithData: true}
	case "fail.unexpected_eof":
		plan.Fail = &FaultAt{At: k, Err: "unexpected_eof"}
	}
	sc.Tasks = []Task{{ID: 0, Call: c11Calls[ci], In: "m0", Read: plan}}
	return sc
}

// posClass names the structural element offset k falls into.
func posClass(frames []*Frame, k int, total int) string {
	for i, f := range frames {
		if k == f.Start && i > 0 {
			return "chain-boundary"
		}
		if k < f.Start || k > f.End {
			continue
		}
		switch {
		case k == f.Start:
			return "stream-start"
		case k < f.Start+f.HeaderSize:
			return "header"
		case k == f.End && k == total:
			return "stream-end"
		case k >= f.End-2 && k < f.End:
			return "file-crc"
		case k == f.End:
			continue
		}
		for _, r := range f.Records {
			if k >= r.Start && k < r.End {
				switch {
				case k == r.Start:
					return r.Kind + "-header"
				case r.Kind == "def":
					return "definition"
				default:
					return "data-record"
				}
			}
		}
		return "data-area"
	}
	if k == total {
		return "stream-end"
	}
	return "tail"
}

func (p *propC11) Check(sc *Scenario, st *Stats) []Violation {
	var vs []Violation
	if len(sc.Tasks) != 1 {
		return nil
	}
	t := &sc.Tasks[0]
	media := sc.buildMedia()
	m0 := media[t.In]
	frames, rest := parseChain(m0)
	if len(frames) == 0 || rest != len(m0) {
		return nil
	}
	for _, f := range frames {
		if len(f.Problems) > 0 {
			return nil
		}
	}
	kind, k := "", 0
	switch {
	case t.Read.Cut != nil:
		kind, k = "cut.eof", t.Read.Cut.At
		if t.Read.Cut.WithData {
			kind = "cut.eof_with_data"
		}
	case t.Read.Fail != nil:
		kind, k = "fail.sticky", t.Read.Fail.At
		if t.Read.Fail.WithData {
			kind = "fail.with_data"
		}
		if t.Read.Fail.Err == "unexpected_eof" {
			kind = "fail.unexpected_eof"
		}
	default:
		return nil
	}
	isCut := strings.HasPrefix(kind, "cut")
	pc := planClass(t.Read)
	pos := posClass(frames, k, len(m0))
	bad := func(what, format string, a ...interface{}) {
		vs = append(vs, Violation{Property: "C11", Class: fmt.Sprintf("C11/%s/%s/%s/%s", t.Call, kind, pos, what), Detail: fmt.Sprintf("k=%d plan=%s: ", k, pc) + fmt.Sprintf(format, a...)})
	}
	// baseline: same call, same policy, no fault
	bkey := hexs([]byte(sc.Params["stream"])) + "|" + t.Call + "|" + pc + "|" + itoa(len(m0))
	base := p.baseCache[bkey]
	if base == nil || sc.Params["stream"] == "" {
		if len(p.baseCache) > 40 {
			p.baseCache = map[string]*Result{} // baselines of big streams are large: keep few
		}
		bt := *t
		bt.Read.Cut, bt.Read.Fail = nil, nil
		base = runTask(&bt, media, nil, nil)
		p.baseCache[bkey] = base
	}
	if base.Panic != "" || base.ErrClass != "nil" {
		return nil // precondition violated (not a valid stream for this EP); other properties own that
	}
	r := runTask(t, media, nil, nil)
	st.Observe(r)
	reached := r.CutFired || r.FailFired
	if reached {
		st.Nontrivial++
		st.Key(t.Call, kind, pos, pc)
	}
	st.ProbeIf(pos == "chain-boundary", "k on chain boundary")
	st.ProbeIf(pos == "file-crc", "k inside stored CRC")
	st.ProbeIf(k > 0 && k%4096 == 0 && reached, "k on a 4096 multiple")
	st.ProbeIf(r.FailData, "with_data variant delivered bytes and error together")
	st.ProbeIf(pos == "header", "k inside header")
	st.ProbeIf(pos == "definition", "k inside a definition")
	st.ProbeIf(pos == "data-record", "k inside a data record")
	if r.Panic != "" {
		bad("panic", "%s", r.Panic)
		return vs
	}
	f0 := frames[0]
	// what the entry point needs
	frameEnd := f0.End
	need := f0.End
	switch t.Call {
	case "DecodeChained":
		frameEnd, need = len(m0), len(m0)
	case "CheckIntegrityHeader", "DecodeHeader":
		need = f0.HeaderSize
		frameEnd = f0.HeaderSize
	case "DecodeHeaderAndFileID":
		for _, rec := range f0.Records {
			if rec.Kind != "def" {
				need = rec.End
				break
			}
		}
	}
	sameAsBase := func() string {
		if r.ErrClass != base.ErrClass {
			return fmt.Sprintf("error class %q, baseline %q", r.ErrClass, base.ErrClass)
		}
		if t.Call == "DecodeChained" {
			if len(r.Dumps) != len(base.Dumps) {
				return fmt.Sprintf("%d files, baseline %d", len(r.Dumps), len(base.Dumps))
			}
			for i := range r.Dumps {
				if d := firstDiff(r.Dumps[i], base.Dumps[i]); d != "" {
					return fmt.Sprintf("file #%d: %s", i+1, d)
				}
			}
			return ""
		}
		return firstDiff(r.Dump, base.Dump)
	}
	switch {
	case k >= frameEnd:
		// nothing may be read there: result identical to the baseline
		if t.Call == "DecodeChained" && k == len(m0) {
			// fault exactly at the end of the chain: a failing reader there is
			// still a fault on a boundary; a clean cut is simply the end.
			if !isCut {
				if r.ErrClass == "nil" {
					bad("silent-success", "reader failed at the chain boundary %d but DecodeChained returned nil", k)
				}
				return vs
			}
		}
		if d := sameAsBase(); d != "" {
			bad("fault-behind-frame-changes-result", "fault at %d is behind the frame end %d, yet: %s", k, frameEnd, d)
		}
		return vs
	case k < need:
		if t.Call == "DecodeChained" && isCut {
			if k == 0 {
				return vs // don't-care, see Assumptions
			}
			for i, f := range frames {
				if i > 0 && f.Start == k {
					// clean end on a file boundary: ends the chain
					if r.ErrClass != "nil" {
						bad("boundary-cut-is-error", "clean end of input on file boundary %d must end the chain, got error %s", k, r.Err)
					} else if r.NFiles != i {
						bad("boundary-cut-file-count", "clean end on boundary %d: %d files returned, %d precede the cut", k, r.NFiles, i)
					} else {
						for j := 0; j < i; j++ {
							if d := firstDiff(r.Dumps[j], base.Dumps[j]); d != "" {
								bad("boundary-cut-content", "file #%d differs from baseline: %s", j+1, d)
								break
							}
						}
					}
					return vs
				}
			}
		}
		if r.ErrClass == "nil" {
			bad("silent-success", "%s returned nil although the input ended/failed at %d and it needs %d bytes", t.Call, k, need)
			return vs
		}
	default: // need <= k < frameEnd: error or baseline values
		if r.ErrClass == "nil" {
			if d := sameAsBase(); d != "" {
				bad("different-values", "%s succeeded with values different from the baseline: %s", t.Call, d)
			}
		}
		return vs
	}
	// partial result (Decode, last file of DecodeChained)
	if t.Call != "Decode" && t.Call != "DecodeChained" {
		return vs
	}
	// which frame does k fall into
	fi := 0
	for i, f := range frames {
		if k >= f.Start {
			fi = i
		}
	}
	if t.Call == "Decode" {
		fi = 0
	}
	fr := frames[fi]
	var got []string
	if t.Call == "Decode" {
		got = r.Dump
	} else {
		// complete files before must equal the baseline
		for j := 0; j < fi && j < len(r.Dumps); j++ {
			if d := firstDiff(r.Dumps[j], base.Dumps[j]); d != "" {
				bad("earlier-file-differs", "file #%d (complete before the fault) differs from baseline: %s", j+1, d)
				return vs
			}
		}
		if r.NFiles < fi {
			bad("earlier-file-lost", "%d complete files precede the fault, %d returned", fi, r.NFiles)
			return vs
		}
		if r.NFiles > fi+1 {
			bad("extra-file", "%d files returned, the fault is inside file #%d", r.NFiles, fi+1)
			return vs
		}
		if r.NFiles == fi {
			got = nil // header of the last file not decoded: no partial file
		} else {
			got = r.Dumps[fi]
		}
	}
	if k < fr.Start+fr.HeaderSize {
		// header incomplete: no File can exist for this frame
		if got != nil && !(len(got) == 1 && got[0] == "file=nil") {
			bad("file-without-header", "a File was returned although the header was incomplete at %d", k)
		}
		return vs
	}
	if got == nil || (len(got) == 1 && got[0] == "file=nil") {
		// returning no partial data at all loses complete messages only if some were complete
		ncomplete := 0
		for _, rec := range fr.Records {
			if rec.Kind != "def" && rec.End <= k {
				ncomplete++
			}
		}
		if ncomplete > 0 {
			bad("partial-lost", "%d data records were complete before %d but no File was returned", ncomplete, k)
		}
		return vs
	}
	nrec := 0
	for _, rec := range fr.Records {
		if rec.End <= k {
			nrec++
		}
	}
	want := p.prefixDump(sc.Params["stream"], m0, fr, fi, nrec)
	if want == nil {
		return vs
	}
	if d := firstDiff(contentLines(got), contentLines(want)); d != "" {
		bad("partial-content", "partial File differs from the decode of the %d records complete before %d: %s", nrec, k, d)
	}
	for _, l := range got {
		if strings.Contains(l, ".len=u") && !strings.HasSuffix(l, "=u0") {
			st.Probe("partial File non-empty")
			break
		}
	}
	return vs
}

// prefixDump decodes the frame rebuilt from the first nrec records of fr and
// returns the dump (cached).
func (p *propC11) prefixDump(name string, m0 []byte, fr *Frame, fi, nrec int) []string {
	key := fmt.Sprintf("%s|%d|%d|%d", name, len(m0), fi, nrec)
	if d, ok := p.prefixCache[key]; ok && name != "" {
		return d
	}
	end := fr.Start + fr.HeaderSize
	if nrec > 0 {
		end = fr.Records[nrec-1].End
	}
	data := m0[fr.Start+fr.HeaderSize : end]
	hs := HeaderSpec{Size: fr.HeaderSize, Proto: fr.Proto, Profile: fr.Profile, HCRC: "ok"}
	b := frameBytes(hs, data, "ok")
	t := &Task{ID: 0, Call: "Decode", In: "p", Read: planFull()}
	r := runTask(t, map[string][]byte{"p": b}, nil, nil)
	if r.Panic != "" {
		return nil
	}
	if len(p.prefixCache) > 8 {
		p.prefixCache = map[string][]string{}
	}
	p.prefixCache[key] = r.Dump
	return r.Dump
}

// crcEngineeredStreams returns small valid files whose stored checksums have
// special byte values: file CRC with high byte 0, with low byte 0, equal to 0,
// and a 14-byte header whose CRC has high byte 0. A cut one byte short of such
// a checksum leaves a running sum whose residue is already 0.
func crcEngineeredStreams() []poolEntry {
	var out []poolEntry
	mk := func(v int, profile uint16) *RecStream {
		return &RecStream{Header: HeaderSpec{Size: 14, Proto: 0x20, Profile: profile, HCRC: "ok"}, Ops: []Op{
			{Def: &DefOp{Local: 0, Arch: "le", Global: 0, Fields: [][3]int{{0, 1, 0}}}},
			{Data: &DataOp{Local: 0, Bytes: "04"}},
			{Def: &DefOp{Local: 1, Arch: "le", Global: 20, Fields: [][3]int{{3, 1, 2}, {4, 1, 2}}}},
			{Data: &DataOp{Local: 1, Bytes: "5a5b"}},
			{Data: &DataOp{Local: 1, Bytes: hexs([]byte{byte(v), byte(v >> 8)})}},
		}}
	}
	targets := []struct {
		name string
		ok   func(b []byte) bool
	}{
		{"crc-high-byte-0", func(b []byte) bool { return b[len(b)-1] == 0 && b[len(b)-2] != 0 }},
		{"crc-low-byte-0", func(b []byte) bool { return b[len(b)-2] == 0 && b[len(b)-1] != 0 }},
		{"crc-0", func(b []byte) bool { return b[len(b)-2] == 0 && b[len(b)-1] == 0 }},
	}
	for _, t := range targets {
		for v := 0; v < 65536; v++ {
			if v&0xFF == 0xFF || v>>8 == 0xFF {
				continue // keep both field values valid
			}
			rs := mk(v, 2115)
			if b := rs.Build(); t.ok(b) {
				out = append(out, poolEntry{Name: t.name, Bytes: b, Med: Medium{Records: rs}, FT: 4})
				break
			}
		}
	}
	for pv := 1; pv < 65536; pv++ {
		rs := mk(0x4142, uint16(pv))
		if b := rs.Build(); b[13] == 0 && b[12] != 0 {
			out = append(out, poolEntry{Name: "header-crc-high-byte-0", Bytes: b, Med: Medium{Records: rs}, FT: 4})
			break
		}
	}
	return out
}

// zeroWidthStream: records that end in something of width 0 - an unlisted string
// field of size 0, a developer field of size 0, a developer-data flag with no
// developer field, a definition without any field (its records are a header
// byte and nothing else). A cut right behind such a record leaves it complete.
func zeroWidthStream() poolEntry {
	rs := &RecStream{Header: HeaderSpec{Size: 12, Proto: 0x20, Profile: 2115}, Ops: []Op{
		{Def: &DefOp{Local: 0, Arch: "le", Global: 0, Fields: [][3]int{{0, 1, 0}}}},
		{Data: &DataOp{Local: 0, Bytes: "04"}},
		{Def: &DefOp{Local: 1, Arch: "le", Global: 20, Fields: [][3]int{{3, 1, 2}, {250, 0, 7}}}},
		{Data: &DataOp{Local: 1, Bytes: "50"}},
		{Data: &DataOp{Local: 1, Bytes: "51"}},
		{Def: &DefOp{Local: 2, Arch: "be", Global: 20, Fields: [][3]int{{4, 1, 2}}, Dev: [][3]int{{1, 0, 0}}}},
		{Data: &DataOp{Local: 2, Bytes: "3c"}},
		{Data: &DataOp{Local: 2, Bytes: "3d"}},
		{Def: &DefOp{Local: 3, Arch: "le", Global: 21, Fields: nil}},
		{Data: &DataOp{Local: 3, Bytes: ""}},
		{Data: &DataOp{Local: 3, Bytes: ""}},
		{Def: &DefOp{Local: 4, Arch: "le", Global: 20, Fields: [][3]int{{250, 0, 7}, {3, 1, 2}, {251, 0, 7}}}},
		{Data: &DataOp{Local: 4, Bytes: "52"}},
		{Data: &DataOp{Local: 1, Bytes: "53"}},
		// an ordinary record last, so that the data section does not end in a zero-width read
		{Def: &DefOp{Local: 5, Arch: "le", Global: 20, Fields: [][3]int{{3, 1, 2}}}},
		{Data: &DataOp{Local: 5, Bytes: "54"}},
	}}
	return poolEntry{Name: "zero-width-tails", Bytes: rs.Build(), Med: Medium{Records: rs}, FT: 4}
}
