package main

import (
	"fmt"
	"sort"
	"strings"
)

// C16 - decode options only add information; unknown-item counts are exact.

type propC16 struct {
	seed   uint64
	tier   string
	count  int
	corpus []poolEntry
}

func init() { register(&propC16{}) }

func (p *propC16) ID() string     { return "C16" }
func (p *propC16) Engine() string { return "rx" }
func (p *propC16) Level() string  { return "exploration" }
func (p *propC16) Rule() string {
	return "scenario = one stream (model-built mix of known/unknown messages with listed/unlisted fields, unknown messages with fields too, developer fields; or a corpus file) decoded under all 8 option sets (logger x unknownFields x unknownMessages) with the same seeded read plan; run fault-free, with one cut.eof at a record boundary or mid-record, or with one injected grammar error (data record for an undefined local type, illegal architecture byte, illegal base type, invalid global number) at a seeded position. " +
		"key = (stream class, failure kind, option set); non-trivial when the stream held unknown items"
}
func (p *propC16) Assumptions() []string {
	return []string{
		"unknown-message count = data records per global number absent from the profile snapshot; unknown-field count = data records of known messages that carried each unlisted field number (a number listed twice in one definition is not generated)",
		"with an option on and nothing to report, nil and empty are both accepted; with the option off the list must be empty",
		"on failure part-way: completed <= reported <= completed + 1 for keys carried by the record in flight",
		"inputs with accumulated component sources are excluded (D11 would make the 8 decodes differ)",
	}
}
func (p *propC16) ProbeNames() []string {
	return []string{"unknown message with fields", "unlisted field in known message", "failure mid-record", "failure at record boundary", "grammar error injected", "logger lines > 0", "corpus stream", "lists checked on success", "lists checked on failure", "lists checked per file of a chain", "option values re-used across calls"}
}

var optSets = [][]string{
	nil, {"logger"}, {"unknownFields"}, {"unknownMessages"}, {"logger", "unknownFields"}, {"logger", "unknownMessages"},
	{"unknownFields", "unknownMessages"}, {"logger", "unknownFields", "unknownMessages"},
}

func (p *propC16) Prepare(seed uint64, tier string) int {
	p.seed, p.tier = seed, tier
	p.corpus = corpusFrames(8000, false)
	p.count = 200000
	if isThorough(tier) {
		p.count = 2000000
	}
	return p.count
}

func (p *propC16) Gen(idx int) *Scenario {
	r := NewRng(p.seed, "C16", idx)
	sc := &Scenario{V: 1, Property: "C16", Engine: "rx", Seed: p.seed, Index: idx, Params: map[string]string{}}
	plan := genPlan(r, false, true)
	if idx%8 == 5 {
		return p.genChain(r, sc, plan)
	}
	var ops []Op
	if len(p.corpus) > 0 && r.Chance(1, 10) {
		e := p.corpus[r.Intn(len(p.corpus))]
		// lift the corpus file to operations so that faults can be placed structurally
		f := parseFrame(e.Bytes, 0)
		rs := &RecStream{Header: HeaderSpec{Size: f.HeaderSize, Proto: f.Proto, Profile: f.Profile, HCRC: "ok"}, Ops: opsFromFrame(e.Bytes, f)}
		sc.Media = []Medium{{ID: "m0", Records: rs}}
		sc.Params["class"] = "corpus"
		ops = rs.Ops
	} else {
		ft := supportedFileTypes[r.Intn(len(supportedFileTypes))]
		rs := genStream(r, StreamOpts{FT: ft, NData: r.Range(1, 30), Arch: 2, Unknown: true, Dev: r.Chance(1, 3), Compressed: r.Chance(1, 3), CompNoRef: true, Unhosted: true, MaxFields: 6, Hdr14: r.Bool()})
		if r.Chance(1, 40) {
			withJumbo(r, rs)
		}
		// raise the share of unknown items
		if r.Chance(1, 2) {
			g := unknownGlobal(r)
			l := byte(r.Intn(16))
			rs.Ops = append(rs.Ops, Op{Def: &DefOp{Local: l, Arch: "le", Global: g, Fields: [][3]int{{1, 2, 0x84}, {7, 1, 2}}}})
			for k := r.Range(1, 4); k > 0; k-- {
				rs.Ops = append(rs.Ops, Op{Data: &DataOp{Local: l, Bytes: hexs(r.Bytes(3))}})
			}
		}
		sc.Media = []Medium{{ID: "m0", Records: rs}}
		sc.Params["class"] = "model"
		ops = rs.Ops
	}
	rs := sc.Media[0].Records
	switch r.Intn(3) {
	case 0:
		sc.Family = "fault-free"
	case 1:
		sc.Family = "cut.eof"
		b := rs.Build()
		f := parseFrame(b, 0)
		k := r.Intn(len(b) + 1)
		if f != nil && len(f.Records) > 0 && r.Chance(1, 2) {
			rec := f.Records[r.Intn(len(f.Records))]
			k = []int{rec.Start, rec.End, rec.Start + 1}[r.Intn(3)]
		}
		plan.Cut = &FaultAt{At: k, WithData: r.Chance(1, 3)}
	case 2:
		sc.Family = "grammar"
		pos := r.Range(2, len(ops))
		var bad Op
		switch r.Intn(4) {
		case 0: // data record for an undefined local type (or a defined one: then it is just data)
			defined := map[byte]bool{}
			for _, op := range ops[:pos] {
				if op.Def != nil {
					defined[op.Def.Local&15] = true
				}
			}
			l := byte(255)
			for c := 0; c < 16; c++ {
				if !defined[byte(c)] {
					l = byte(c)
					break
				}
			}
			if l == 255 {
				sc.Family = "fault-free"
				break
			}
			bad = Op{Raw: hexs([]byte{l})}
		case 1:
			bad = Op{Raw: hexs([]byte{0x40 | byte(r.Intn(16)), 0, 2, 20, 0, 0})} // architecture byte 2
		case 2:
			bad = Op{Raw: hexs([]byte{0x40 | byte(r.Intn(16)), 0, 0, 20, 0, 1, 3, 1, 0x1F})} // base type 0x1F
		default:
			bad = Op{Raw: hexs([]byte{0x40 | byte(r.Intn(16)), 0, 0, 0xFF, 0xFF, 0})} // global 0xFFFF
		}
		if sc.Family == "grammar" {
			no := append([]Op{}, ops[:pos]...)
			no = append(no, bad)
			no = append(no, ops[pos:]...)
			rs.Ops = no
			sc.Params["bad_at"] = itoa(pos)
		}
	}
	shared := r.Bool() // the caller builds its option values once and re-uses them for every call
	for i, o := range optSets {
		sc.Tasks = append(sc.Tasks, Task{ID: i, Call: "Decode", In: "m0", Opts: o, SharedOpts: shared, Read: plan})
	}
	return sc
}

func stripUnknownLines(d []string) []string {
	var out []string
	for _, l := range d {
		if strings.HasPrefix(l, "UnknownMessages=") || strings.HasPrefix(l, "UnknownFields=") {
			continue
		}
		out = append(out, l)
	}
	return out
}

// parseCountList parses "[{u65280 i3} {u20 u7 i1}]" into key -> count, checking sortedness.
func parseCountList(s string) (m map[string]int, sorted bool, ok bool) {
	m = map[string]int{}
	if s == "nil" || s == "[]" {
		return m, true, true
	}
	if !strings.HasPrefix(s, "[{") || !strings.HasSuffix(s, "}]") {
		return nil, false, false
	}
	items := strings.Split(s[2:len(s)-2], "} {")
	sorted = true
	var prev []uint64
	for _, it := range items {
		f := strings.Fields(it)
		if len(f) < 2 {
			return nil, false, false
		}
		var key []uint64
		for _, x := range f[:len(f)-1] {
			v, ok := parseU(x)
			if !ok {
				return nil, false, false
			}
			key = append(key, v)
		}
		cs := f[len(f)-1]
		if len(cs) < 2 || cs[0] != 'i' {
			return nil, false, false
		}
		c := 0
		fmt.Sscan(cs[1:], &c)
		ks := fmt.Sprint(key)
		if _, dup := m[ks]; dup {
			sorted = false
		}
		m[ks] = c
		if prev != nil {
			less := false
			for i := range key {
				if prev[i] != key[i] {
					less = prev[i] < key[i]
					break
				}
			}
			if !less {
				sorted = false
			}
		}
		prev = key
	}
	return m, sorted, true
}

func (p *propC16) Check(sc *Scenario, st *Stats) []Violation {
	var vs []Violation
	bad := func(class, format string, a ...interface{}) {
		vs = append(vs, Violation{Property: "C16", Class: "C16/" + class, Detail: fmt.Sprintf(format, a...)})
	}
	if sc.Family == "chain" {
		return p.checkChain(sc, st)
	}
	if len(sc.Media) == 0 || sc.Media[0].Records == nil || len(sc.Tasks) < 2 {
		return nil
	}
	rs := sc.Media[0].Records
	media := sc.buildMedia()
	b := media["m0"]
	// model: which ops complete, which in flight
	rawAt := -1
	for i, op := range rs.Ops {
		if op.Raw != "" {
			rawAt = i
			break
		}
	}
	good := rs.Ops
	if rawAt >= 0 {
		good = rs.Ops[:rawAt]
	}
	if !streamSane(good) {
		return nil
	}
	ft, okft := fileTypeOfOps(good)
	if !okft || !isSupportedFileType(ft) {
		return nil
	}
	complete := len(good) // ops fully processed before the failure
	var inflight *Op
	failure := "none"
	plan := sc.Tasks[0].Read
	if plan.Cut != nil {
		k := plan.Cut.At
		f := parseFrame(applyCutForParse(b), 0)
		if f == nil || len(f.Records) < len(good) {
			return nil
		}
		if k < f.End {
			failure = "cut"
			complete = 0
			for i := range good {
				if f.Records[i].End <= k {
					complete = i + 1
				}
			}
			if complete < len(good) && f.Records[complete].Start < k {
				inflight = &good[complete]
				st.Probe("failure mid-record")
			} else {
				st.Probe("failure at record boundary")
			}
			if k < f.HeaderSize {
				failure = "cut-in-header"
			}
		}
	} else if rawAt >= 0 {
		failure = "grammar"
		st.Probe("grammar error injected")
	}
	mo := interpret(good[:complete])
	if mo.ErrOp >= 0 {
		return nil
	}
	wantUM := map[string]int{}
	for g, c := range mo.UnknownMsgs {
		wantUM[fmt.Sprint([]uint64{uint64(g)})] = c
	}
	wantUF := map[string]int{}
	for k, c := range mo.UnknownFlds {
		wantUF[fmt.Sprint([]uint64{uint64(k.M), uint64(k.F)})] = c
	}
	flightUM, flightUF := map[string]bool{}, map[string]bool{}
	if inflight != nil && inflight.Data != nil {
		// definition in force for the in-flight record
		var defs [16]*DefOp
		for i := 0; i < complete; i++ {
			if good[i].Def != nil {
				defs[good[i].Def.Local&15] = good[i].Def
			}
		}
		l := inflight.Data.Local & 15
		if inflight.Data.Comp {
			l &= 3
		}
		if d := defs[l]; d != nil {
			if !prof.Known(d.Global) {
				flightUM[fmt.Sprint([]uint64{uint64(d.Global)})] = true
			} else {
				for _, fd := range d.Fields {
					if prof.Field(d.Global, byte(fd[0])) == nil {
						flightUF[fmt.Sprint([]uint64{uint64(d.Global), uint64(fd[0])})] = true
					}
				}
			}
		}
	}
	hasUnknown := len(mo.UnknownMsgs)+len(mo.UnknownFlds) > 0
	st.ProbeIf(len(mo.UnknownFlds) > 0, "unlisted field in known message")
	for i := range good[:complete] {
		if d := good[i].Def; d != nil && !prof.Known(d.Global) && len(d.Fields) > 0 {
			st.Probe("unknown message with fields")
			break
		}
	}
	st.ProbeIf(sc.Params["class"] == "corpus", "corpus stream")
	if hasUnknown {
		st.Nontrivial++
	}
	// execute the 8 option sets
	resetSharedOpts()
	st.ProbeIf(sc.Tasks[0].SharedOpts, "option values re-used across calls")
	var res []*Result
	for i := range sc.Tasks {
		r := runTask(&sc.Tasks[i], media, nil, nil)
		st.Observe(r)
		res = append(res, r)
		if hasUnknown {
			st.Key(sc.Params["class"], failure, strings.Join(sc.Tasks[i].Opts, "+"))
		}
		if r.Panic != "" {
			bad("panic/"+strings.Join(sc.Tasks[i].Opts, "+"), "Decode panicked with options %v: %s", sc.Tasks[i].Opts, r.Panic)
			return vs
		}
		st.ProbeIf(r.LogLines > 0, "logger lines > 0")
	}
	base := res[0]
	for i, r := range res {
		on := strings.Join(sc.Tasks[i].Opts, "+")
		if i > 0 {
			if r.ErrClass != base.ErrClass || r.Err != base.Err {
				bad("error-differs/"+on, "options %s: error %q (%s), option-free run: %q (%s)", on, r.Err, r.ErrClass, base.Err, base.ErrClass)
				continue
			}
			if r.Delivered != base.Delivered {
				bad("bytes-consumed-differ/"+on, "options %s: %d bytes consumed, option-free run %d", on, r.Delivered, base.Delivered)
			}
			if d := firstDiff(stripUnknownLines(r.Dump), stripUnknownLines(base.Dump)); d != "" {
				bad("messages-differ/"+on, "options %s change the decoded content: %s", on, d)
				continue
			}
		}
		if r.file == nil {
			continue
		}
		checkList := func(name, line string, optOn bool, want map[string]int, flight map[string]bool) {
			got, sorted, ok := parseCountList(strings.TrimPrefix(line, name+"="))
			if !ok {
				bad(name+"/unparsable", "%s", line)
				return
			}
			if !optOn {
				if len(got) != 0 {
					bad(name+"/reported-with-option-off", "%s although the option is off", line)
				}
				return
			}
			if !sorted {
				bad(name+"/not-sorted", "%s", line)
			}
			if failure == "cut-in-header" {
				return
			}
			keys := map[string]bool{}
			for k := range got {
				keys[k] = true
			}
			for k := range want {
				keys[k] = true
			}
			var ks []string
			for k := range keys {
				ks = append(ks, k)
			}
			sort.Strings(ks)
			for _, k := range ks {
				lo := want[k]
				hi := lo
				if flight[k] {
					hi++
				}
				if got[k] < lo || got[k] > hi {
					what := "count"
					if failure != "none" {
						what = "count-on-failure"
					}
					bad(name+"/"+what, "%s: key %s reported %d, model %d..%d (failure: %s; %d ops complete)", name, k, got[k], lo, hi, failure, complete)
					return
				}
			}
			if failure == "none" {
				st.Probe("lists checked on success")
			} else {
				st.Probe("lists checked on failure")
			}
		}
		checkList("UnknownMessages", findLine(r.Dump, "UnknownMessages="), hasOpt(&sc.Tasks[i], "unknownMessages"), wantUM, flightUM)
		checkList("UnknownFields", findLine(r.Dump, "UnknownFields="), hasOpt(&sc.Tasks[i], "unknownFields"), wantUF, flightUF)
	}
	if failure == "none" && base.ErrClass != "nil" {
		bad("rejects-wellformed", "fault-free stream rejected: %s", base.Err)
	}
	if failure != "none" && base.ErrClass == "nil" {
		bad("failure-not-reported", "failure kind %s but Decode returned nil", failure)
	}
	return vs
}

// applyCutForParse returns the bytes as they are (the parser needs the whole
// frame to locate records; the cut only limits what the reader serves).
func applyCutForParse(b []byte) []byte { return b }

// ---- chained family: the options across the files of one DecodeChained call ----

func (p *propC16) genChain(r *Rng, sc *Scenario, plan ReadPlan) *Scenario {
	sc.Family = "chain"
	n := r.Range(2, 4)
	var ids []string
	for i := 0; i < n; i++ {
		ft := supportedFileTypes[r.Intn(len(supportedFileTypes))]
		rs := genStream(r, StreamOpts{FT: ft, NData: r.Range(1, 12), Arch: 2, Unknown: r.Chance(3, 4), Dev: r.Chance(1, 3), Compressed: r.Chance(1, 3), CompNoRef: true, Unhosted: true, MaxFields: 5, Hdr14: r.Bool()})
		if r.Chance(1, 2) {
			g := unknownGlobal(r)
			l := byte(r.Intn(16))
			rs.Ops = append(rs.Ops, Op{Def: &DefOp{Local: l, Arch: "le", Global: g, Fields: [][3]int{{1, 2, 0x84}}}})
			for k := r.Range(1, 3); k > 0; k-- {
				rs.Ops = append(rs.Ops, Op{Data: &DataOp{Local: l, Bytes: hexs(r.Bytes(2))}})
			}
		}
		id := "f" + itoa(i)
		sc.Media = append(sc.Media, Medium{ID: id, Records: rs})
		ids = append(ids, id)
	}
	sc.Media = append(sc.Media, Medium{ID: "m0", Chain: ids})
	sc.Params["frames"] = itoa(n)
	for i, o := range optSets {
		sc.Tasks = append(sc.Tasks, Task{ID: i, Call: "DecodeChained", In: "m0", Opts: o, Read: plan})
	}
	return sc
}

func (p *propC16) checkChain(sc *Scenario, st *Stats) []Violation {
	var vs []Violation
	bad := func(class, format string, a ...interface{}) {
		vs = append(vs, Violation{Property: "C16", Class: "C16/chain/" + class, Detail: fmt.Sprintf(format, a...)})
	}
	var streams []*RecStream
	for i := range sc.Media {
		if sc.Media[i].Records != nil {
			if !streamSane(sc.Media[i].Records.Ops) {
				return nil
			}
			streams = append(streams, sc.Media[i].Records)
		}
	}
	if len(streams) < 2 || len(sc.Tasks) < 2 {
		return nil
	}
	var models []*ModelOut
	for _, rs := range streams {
		mo := interpret(rs.Ops)
		if mo.ErrOp >= 0 {
			return nil
		}
		models = append(models, mo)
	}
	media := sc.buildMedia()
	var res []*Result
	for i := range sc.Tasks {
		r := runTask(&sc.Tasks[i], media, nil, nil)
		st.Observe(r)
		if r.Panic != "" {
			bad("panic", "DecodeChained panicked with options %v: %s", sc.Tasks[i].Opts, r.Panic)
			return vs
		}
		res = append(res, r)
	}
	st.Nontrivial++
	st.Key("chain", len(streams))
	base := res[0]
	if base.ErrClass != "nil" || base.NFiles != len(streams) {
		bad("rejects-valid-chain", "DecodeChained: %d files, error %q for %d valid frames", base.NFiles, base.Err, len(streams))
		return vs
	}
	for i, r := range res {
		on := strings.Join(sc.Tasks[i].Opts, "+")
		if r.ErrClass != base.ErrClass || r.NFiles != base.NFiles || r.Delivered != base.Delivered {
			bad("result-differs", "options %s: %d files, error %q, %d bytes; option-free: %d files, %q, %d bytes", on, r.NFiles, r.Err, r.Delivered, base.NFiles, base.Err, base.Delivered)
			return vs
		}
		for fi := range r.Dumps {
			if d := firstDiff(stripUnknownLines(r.Dumps[fi]), stripUnknownLines(base.Dumps[fi])); d != "" {
				bad("messages-differ", "options %s change file #%d of the chain: %s", on, fi+1, d)
				return vs
			}
			check := func(name string, optOn bool, want map[string]int) {
				got, sorted, ok := parseCountList(strings.TrimPrefix(findLine(r.Dumps[fi], name+"="), name+"="))
				if !ok {
					bad(name+"/unparsable", "file #%d", fi+1)
					return
				}
				if !optOn {
					if len(got) != 0 {
						bad(name+"/reported-with-option-off", "file #%d reports %v", fi+1, got)
					}
					return
				}
				if !sorted {
					bad(name+"/not-sorted", "file #%d", fi+1)
				}
				keys := map[string]bool{}
				for k := range got {
					keys[k] = true
				}
				for k := range want {
					keys[k] = true
				}
				for k := range keys {
					if got[k] != want[k] {
						bad(name+"/count", "file #%d of the chain: key %s reported %d, this file alone has %d (options %s)", fi+1, k, got[k], want[k], on)
						return
					}
				}
				st.Probe("lists checked per file of a chain")
			}
			wantUM, wantUF := map[string]int{}, map[string]int{}
			for g, c := range models[fi].UnknownMsgs {
				wantUM[fmt.Sprint([]uint64{uint64(g)})] = c
			}
			for k, c := range models[fi].UnknownFlds {
				wantUF[fmt.Sprint([]uint64{uint64(k.M), uint64(k.F)})] = c
			}
			check("UnknownMessages", hasOpt(&sc.Tasks[i], "unknownMessages"), wantUM)
			check("UnknownFields", hasOpt(&sc.Tasks[i], "unknownFields"), wantUF)
			if len(vs) > 0 {
				return vs
			}
		}
	}
	return vs
}
