package main

import (
	"fmt"
	"reflect"
	"strconv"
	"strings"
	"unicode/utf8"

	"github.com/tormoder/fit"
)

// C07 - anything Decode accepts can be re-encoded, and one round trip is a
// fixpoint (engine pipe; the repository's own go-fuzz oracle, run offline).

type propC07 struct {
	seed   uint64
	tier   string
	count  int
	corpus []poolEntry
	mut    *propC01
}

func init() { register(&propC07{}) }

func (p *propC07) ID() string     { return "C07" }
func (p *propC07) Engine() string { return "pipe" }
func (p *propC07) Level() string  { return "exploration" }
func (p *propC07) Rule() string {
	return "scenario = one input stream from three families - corpus files, model-built streams (narrowed fields, arrays shorter and longer than the profile length, unterminated / non-UTF-8 / over-long strings, developer fields, compressed timestamps, unknown items), and structure-aware mutants of valid streams (C01's mutation family) - decoded through a seeded read plan; if Decode accepts it the chain Encode (both byte orders) -> CheckIntegrity -> Decode -> compare -> Encode -> Decode -> compare is executed through SimWriter/SimReader. " +
		"key = (source family, stage reached, message kinds present, byte order); non-trivial when the input was accepted and held >= 1 hosted message"
}
func (p *propC07) Assumptions() []string {
	return []string{
		"first generation vs second: numeric, time and coordinate fields equal (local times by wall clock); strings equal up to the profile length - 1 bytes; arrays equal up to the profile length and modulo trailing invalid padding",
		"second vs third generation: canonical content equal (header and CRCs excluded, field order inside definitions may differ)",
		"inputs with accumulated component sources are excluded (D11 would show as a Distance drift)",
	}
}
func (p *propC07) ProbeNames() []string {
	return []string{"narrowed input", "over-long array", "non-UTF-8 string", "over-long string", "developer fields", "compressed timestamps", "accepted mutant", "corpus input", "fixpoint reached"}
}

func (p *propC07) Prepare(seed uint64, tier string) int {
	p.seed, p.tier = seed, tier
	max := 30000
	p.count = 40000
	if isThorough(tier) {
		max = 400000
		p.count = 300000
	}
	p.corpus = corpusFrames(max, false)
	p.mut = &propC01{}
	p.mut.Prepare(seed, "replay")
	// mutation pool without accumulating inputs
	var pool []poolEntry
	for _, e := range p.mut.pool {
		if !hasAccumSource(e.Bytes) {
			pool = append(pool, e)
		}
	}
	p.mut.pool = pool
	return p.count
}

func (p *propC07) Gen(idx int) *Scenario {
	r := NewRng(p.seed, "C07", idx)
	sc := &Scenario{V: 1, Property: "C07", Engine: "pipe", Seed: p.seed, Index: idx, Params: map[string]string{}}
	switch x := idx % 10; {
	case x == 0 && len(p.corpus) > 0:
		e := p.corpus[(idx/10)%len(p.corpus)]
		sc.Family = "corpus"
		sc.Media = []Medium{{ID: "m0", Corpus: e.Name}}
	case x <= 5:
		sc.Family = "model"
		ft := supportedFileTypes[r.Intn(len(supportedFileTypes))]
		rs := genStream(r, StreamOpts{FT: ft, NData: r.Range(1, 20), Arch: 2, Narrow: true, Unknown: true, Dev: r.Chance(1, 3), Compressed: r.Chance(1, 3),
			Unhosted: true, UTF8: r.Chance(1, 2), BigArr: true, Hdr14: r.Bool(), MaxFields: 8})
		if r.Chance(1, 3) {
			// any header Decode accepts must re-encode: minor protocol versions, profile versions
			rs.Header.Proto = []byte{0x10, 0x21, 0x2F, 0x1F, 0x00, 0x0F, 0x25}[r.Intn(7)]
			rs.Header.Profile = uint16(r.U64())
		}
		sc.Media = []Medium{{ID: "m0", Records: rs}}
	default:
		sc.Family = "mutant"
		m := p.mut.genMutation(idx)
		sc.Media = m.Media
		sc.Media[0].Tail = ""
	}
	sc.Tasks = []Task{{ID: 0, Call: "Decode", In: "m0", Read: genPlan(r, false, true)}}
	return sc
}

// wallClock extracts unix+offset from a canonical time.
func wallClock(s string) (int64, bool) {
	if !strings.HasPrefix(s, "t") {
		return 0, false
	}
	body := s[1:]
	i := strings.LastIndexByte(body, '+')
	if i < 0 {
		return 0, false
	}
	u, e1 := strconv.ParseInt(body[:i], 10, 64)
	o, e2 := strconv.ParseInt(strings.SplitN(body[i+1:], ".", 2)[0], 10, 64)
	return u + o, e1 == nil && e2 == nil
}

// compareGenerations compares two decoded Files under the rules of C07
// (a = earlier generation, b = later). strict = canonical equality.
func compareGenerations(a, b *fit.File, strict bool) string {
	if a.Type() != b.Type() {
		return fmt.Sprintf("file type %d vs %d", a.Type(), b.Type())
	}
	ft := byte(a.Type())
	hs := hostsOf(ft)
	var mns []uint16
	for mn := range hs {
		mns = append(mns, mn)
	}
	sortU16(mns)
	for _, mn := range mns {
		h := hs[mn]
		key := h.Field
		if h.OnFile {
			key = "File." + h.Field
		}
		av, ok1 := slotValues(a, ft, key)
		bv, ok2 := slotValues(b, ft, key)
		if !ok1 || !ok2 {
			return key + ": slot inaccessible"
		}
		if len(av) != len(bv) {
			return fmt.Sprintf("%s: %d messages vs %d", key, len(av), len(bv))
		}
		for i := range av {
			for _, pf := range prof.byMesg[mn] {
				if pf.SIndex >= av[i].NumField() {
					continue
				}
				x, y := canonValue(av[i].Field(pf.SIndex)), canonValue(bv[i].Field(pf.SIndex))
				if x == y {
					continue
				}
				if !strict {
					pb := baseOf(pf.Base)
					switch {
					case pf.Kind == kindLocal:
						wx, o1 := wallClock(x)
						wy, o2 := wallClock(y)
						if o1 && o2 && wx == wy {
							continue
						}
					case pb.String && !pf.Array:
						sx, _ := strconv.Unquote(x[1:])
						sy, _ := strconv.Unquote(y[1:])
						n := int(pf.Length) - 1
						if n < 0 {
							n = 0
						}
						if len(sx) > n {
							for n > 0 && !utf8.RuneStart(sx[n]) {
								n--
							}
							sx = sx[:n]
						}
						if sx == sy {
							continue
						}
					case pf.Array && !pb.String:
						if stripTrailingInvalid(pf, truncArray(pf, x, int(pf.Length))) == stripTrailingInvalid(pf, y) {
							continue
						}
					}
				}
				return fmt.Sprintf("%s[%d].%s: %s vs %s", key, i, pf.Name, clip(x), clip(y))
			}
		}
	}
	return ""
}

func (p *propC07) Check(sc *Scenario, st *Stats) []Violation {
	var vs []Violation
	bad := func(class, format string, a ...interface{}) {
		vs = append(vs, Violation{Property: "C07", Class: "C07/" + class, Detail: fmt.Sprintf(format, a...)})
	}
	if len(sc.Tasks) == 0 || len(sc.Media) == 0 {
		return nil
	}
	media := sc.buildMedia()
	x := media[sc.Tasks[0].In]
	if hasAccumSource(x) {
		return nil
	}
	r1 := runTask(&sc.Tasks[0], media, nil, nil)
	st.Observe(r1)
	if r1.Panic != "" || r1.ErrClass != "nil" || r1.file == nil {
		st.Key(sc.Family, "rejected")
		return nil // not an accepted input; C01 owns panics
	}
	f1 := r1.file
	ft := byte(f1.Type())
	// probes on the accepted input
	hosted := 0
	kinds := ""
	if c := containerOf(f1); c.IsValid() {
		cv := c.Elem()
		for i := 0; i < cv.NumField(); i++ {
			fv := cv.Field(i)
			if fv.Kind() == reflect.Slice && fv.Len() > 0 || fv.Kind() == reflect.Ptr && !fv.IsNil() {
				hosted++
				kinds += cv.Type().Field(i).Name[:1]
			}
		}
	}
	if hosted > 0 {
		st.Nontrivial++
	}
	st.ProbeIf(sc.Family == "mutant", "accepted mutant")
	st.ProbeIf(sc.Family == "corpus", "corpus input")
	if fr := parseFrame(x, 0); fr != nil {
		for _, rec := range fr.Records {
			if rec.Kind == "cdata" {
				st.Probe("compressed timestamps")
			}
			if rec.Kind != "def" {
				continue
			}
			st.ProbeIf(len(rec.Def.Dev) > 0, "developer fields")
			for _, fd := range rec.Def.Fields {
				pf := prof.Field(rec.Global, byte(fd[0]))
				db := baseOf(byte(fd[2]))
				if pf == nil || db == nil {
					continue
				}
				pb := baseOf(pf.Base)
				st.ProbeIf(!pf.Array && !pb.String && db.Size < pb.Size, "narrowed input")
				st.ProbeIf(pf.Array && !pb.String && fd[1]/pb.Size > int(pf.Length), "over-long array")
				st.ProbeIf(pb.String && fd[1] > int(pf.Length), "over-long string")
			}
		}
	}
	stage := "encode"
	for _, arch := range []string{"le", "be"} {
		e1 := runTask(&Task{ID: 1, Call: "Encode", In: "result:0", Arch: arch}, nil, nil, map[int]*Result{0: r1})
		st.Observe(e1)
		if e1.Panic != "" {
			bad("encode-panic/"+panicKey(e1.Panic), "Encode of an accepted input panicked (%s): %s", arch, e1.Panic)
			return vs
		}
		if e1.ErrClass != "nil" {
			sig := ""
			if strings.Contains(e1.Err, "as UTF-8 string") {
				// which of the two listed shapes is it?
				if fileHasInvalidUTF8(f1) {
					sig = "non-utf8-string"
					st.Probe("non-UTF-8 string")
				} else {
					sig = "rune-cut-by-truncation"
				}
			}
			bad("encode-fails", "Encode (%s) failed on a File that Decode returned: %s", arch, e1.Err)
			vs[len(vs)-1].Signature = sig
			return vs
		}
		stage = "integrity"
		y1 := e1.Out
		m := map[string][]byte{"y": y1}
		ci := runTask(&Task{ID: 2, Call: "CheckIntegrity", In: "y", Read: planFull()}, m, nil, nil)
		st.Observe(ci)
		if ci.Panic != "" || ci.ErrClass != "nil" {
			bad("reencoded-fails-integrity/"+arch, "CheckIntegrity rejects Encode's output: %s%s", ci.Err, ci.Panic)
			return vs
		}
		stage = "redecode"
		r2 := runTask(&Task{ID: 3, Call: "Decode", In: "y", Read: sc.Tasks[0].Read}, m, nil, nil)
		st.Observe(r2)
		if r2.Panic != "" || r2.ErrClass != "nil" {
			bad("reencoded-not-decodable/"+arch, "Decode rejects Encode's output: %s%s", r2.Err, r2.Panic)
			return vs
		}
		if d := compareGenerations(f1, r2.file, false); d != "" {
			bad("generation1-vs-2/"+arch, "decoded content changed across Encode/Decode (%s): %s", arch, d)
			return vs
		}
		stage = "fixpoint"
		e2 := runTask(&Task{ID: 4, Call: "Encode", In: "result:3", Arch: arch}, nil, nil, map[int]*Result{3: r2})
		st.Observe(e2)
		if e2.Panic != "" || e2.ErrClass != "nil" {
			bad("second-encode-fails/"+arch, "Encode of the second generation failed: %s%s", e2.Err, e2.Panic)
			return vs
		}
		r3 := runTask(&Task{ID: 5, Call: "Decode", In: "z", Read: planFull()}, map[string][]byte{"z": e2.Out}, nil, nil)
		st.Observe(r3)
		if r3.Panic != "" || r3.ErrClass != "nil" {
			bad("second-output-not-decodable/"+arch, "Decode rejects the second Encode's output: %s%s", r3.Err, r3.Panic)
			return vs
		}
		if d := compareGenerations(r2.file, r3.file, true); d != "" {
			bad("not-a-fixpoint/"+arch, "second round trip changed the content (%s): %s", arch, d)
			return vs
		}
		st.Probe("fixpoint reached")
		st.Key(sc.Family, stage, kinds, arch, ft)
	}
	return vs
}

func fileHasInvalidUTF8(f *fit.File) bool {
	bad := false
	var walk func(v reflect.Value)
	walk = func(v reflect.Value) {
		switch v.Kind() {
		case reflect.String:
			if !utf8.ValidString(v.String()) {
				bad = true
			}
		case reflect.Ptr:
			if !v.IsNil() {
				walk(v.Elem())
			}
		case reflect.Struct:
			if v.Type() == timeType {
				return
			}
			for i := 0; i < v.NumField(); i++ {
				if v.Type().Field(i).PkgPath == "" {
					walk(v.Field(i))
				}
			}
		case reflect.Slice:
			if v.Type().Elem().Kind() == reflect.Uint8 {
				return
			}
			for i := 0; i < v.Len(); i++ {
				walk(v.Index(i))
			}
		}
	}
	walk(reflect.ValueOf(&f.FileId).Elem())
	if c := containerOf(f); c.IsValid() {
		walk(c)
	}
	return bad
}
