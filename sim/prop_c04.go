package main

import (
	"fmt"
	"strings"
)

// C04 - corruption is detected; CRC verdicts are sound and agree across entry
// points. Bursts are numbered LSB-first per byte (DESIGN 3 C04).

type c04File struct {
	name  string
	med   Medium
	bytes []byte
	frame *Frame
	nbits int
	npat  int // patterns per (start bit, length): 16384 = every pattern of every length
}

type propC04 struct {
	seed  uint64
	tier  string
	files []c04File
	cum   []int
	npat  int
	nFlip int
	nHdr  int
	nTgt  int
	nProd int
	count int
	preOK map[int]bool
}

func init() { register(&propC04{}) }

func (p *propC04) ID() string     { return "C04" }
func (p *propC04) Engine() string { return "rx" }
func (p *propC04) Level() string  { return "fault_enumeration" }
func (p *propC04) Rule() string {
	return "enumeration of at-rest flip faults: for every pool file (corpus files and model streams that Decode accepts, output of the real Encode; 12- and 14-byte headers, stored header CRC correct or 0) x every start bit such that the burst avoids header byte 0 and bytes 4-7 x every burst length 1..16 x patterns with first and last bit set (quick: 4 per length; thorough: all 2^(L-2) on one file <= 200 B, 4 on the rest, files up to 1200 B), Decode and CheckIntegrity must both reject; plus the header verdict matrix: generated 14-byte headers (random protocol/profile version, stored CRC correct / 0 / one bit off / random) in an otherwise valid file through CheckIntegrity(headerOnly), DecodeHeader, Decode, Header.CheckIntegrity; plus the produced family: model Files (stale header size / CRC fields, 12- and 14-byte headers, both byte orders) through the real Encode - once, twice with the protocol version changed in between, or appended to a non-empty bytes.Buffer - whose output all five integrity APIs must accept. " +
		"key = (entry point, source kind, structural class of the first flipped bit, burst length); non-trivial when the flipped bits were consumed by the entry point"
}
func (p *propC04) Assumptions() []string {
	return []string{
		"bit k of the stream is bit (k mod 8) of byte (k div 8), least significant first: the order in which a reflected CRC consumes bits; only in that order is a run of <= 16 bits a burst error",
		"pool files pass CheckIntegrity and Decode before corruption (checked, otherwise the file is dropped and counted)",
	}
}
func (p *propC04) ProbeNames() []string {
	return []string{"burst across header/data boundary", "burst inside stored file CRC", "burst inside stored header CRC", "stored header CRC turned to 0", "header matrix: matching", "header matrix: zero", "header matrix: mismatching", "header matrix: none", "precondition: pool file passes both", "targeted burst: stored CRC forced to a special value", "file produced by Encode"}
}

func (p *propC04) Prepare(seed uint64, tier string) int {
	p.seed, p.tier = seed, tier
	base := strings.TrimSuffix(tier, "+")
	enum := !strings.HasSuffix(tier, "+")
	p.files = nil
	maxCorpus, nModel, maxModel := 600, 8, 600
	p.npat = 4
	if base == "thorough" {
		maxCorpus, nModel, maxModel = 1200, 20, 1200
		p.npat = 4
	}
	add := func(name string, med Medium, b []byte) {
		f := parseFrame(b, 0)
		if f == nil || len(f.Problems) > 0 || f.End != len(b) || !plainDecodeOK(b) {
			return
		}
		med.ID = "m0"
		p.files = append(p.files, c04File{name: name, med: med, bytes: b, frame: f, nbits: 8 * len(b)})
	}
	for _, e := range corpusFrames(maxCorpus, false) {
		add(e.Name, e.Med, e.Bytes)
	}
	for i := 0; i < nModel; i++ {
		r := NewRng(seed, "C04/pool", i)
		ft := supportedFileTypes[r.Intn(len(supportedFileTypes))]
		rs := genStream(r, StreamOpts{FT: ft, NData: r.Range(0, 8), Arch: 2, Unknown: true, Dev: true, Compressed: true, Hdr14: i%2 == 0, HCRCZero: i%4 == 0, MaxFields: 5})
		b := rs.Build()
		if len(b) > maxModel {
			continue
		}
		add(fmt.Sprintf("model%d", i), Medium{Records: rs}, b)
	}
	// a stream whose data records carry 70-110 bytes of developer data (paths that
	// skip rather than parse must still feed the checksum)
	{
		r := NewRng(seed, "C04/dev", 0)
		n := r.Range(70, 110)
		rs := &RecStream{Header: HeaderSpec{Size: 14, Proto: 0x20, Profile: 2115, HCRC: "ok"}, Ops: []Op{
			{Def: &DefOp{Local: 0, Arch: "le", Global: 0, Fields: [][3]int{{0, 1, 0}}}},
			{Data: &DataOp{Local: 0, Bytes: "04"}},
			{Def: &DefOp{Local: 1, Arch: "le", Global: 20, Fields: [][3]int{{3, 1, 2}}, Dev: [][3]int{{0, n, 0}, {1, 4, 0}}}},
			{Data: &DataOp{Local: 1, Bytes: "50" + hexs(r.Bytes(n+4))}},
			{Data: &DataOp{Local: 1, Bytes: "51" + hexs(r.Bytes(n+4))}},
		}}
		add("devdata", Medium{Records: rs}, rs.Build())
	}
	// output of the real Encode for a few model Files
	for i := 0; i < nModel/2; i++ {
		r := NewRng(seed, "C04/enc", i)
		mf := genModelFile(r, MFOpts{InDomain: true, MaxMsgs: 4, MaxFields: 4})
		arch := "le"
		if i%2 == 1 {
			arch = "be"
		}
		b := encodeModelFile(mf, arch)
		if len(b) == 0 || len(b) > maxModel {
			continue
		}
		add(fmt.Sprintf("encode%d", i), Medium{Encode: &EncodeSpec{File: mf, Arch: arch}}, b)
	}
	if len(p.files) == 0 {
		fatalInfra("C04: empty pool")
	}
	p.cum = nil
	total := 0
	small := 0
	for i := range p.files {
		p.files[i].npat = p.npat
		// thorough: the first file of at most 200 bytes gets every pattern of every burst length
		if base == "thorough" && len(p.files[i].bytes) <= 200 && small < 1 {
			p.files[i].npat = 1 << 14
			small++
		}
	}
	if enum {
		for _, f := range p.files {
			total += f.nbits * 16 * f.npat
			p.cum = append(p.cum, total)
		}
	}
	p.nFlip = total
	p.nHdr = 4000
	if base == "thorough" {
		p.nHdr = 200000
	}
	if base == "replay" {
		p.nHdr = 0
	}
	// targeted bursts: the ones that turn a stored CRC into a "special" value
	p.nTgt = len(p.files) * len(c04Targets)
	// files that the real Encode produced: every integrity API must accept them
	p.nProd = 6000
	if base == "thorough" {
		p.nProd = 300000
	}
	if base == "replay" {
		p.nProd = 0
	}
	p.count = p.nFlip + p.nHdr + p.nTgt + p.nProd
	return p.count
}

func burstExcluded(bit, l int) bool {
	end := bit + l // exclusive
	// header byte 0: bits [0,8); bytes 4-7: bits [32,64)
	return bit < 8 || (bit < 64 && end > 32)
}

func (p *propC04) Gen(idx int) *Scenario {
	if idx >= p.nFlip+p.nHdr+p.nTgt {
		return p.genProduced(idx - p.nFlip - p.nHdr - p.nTgt)
	}
	if idx >= p.nFlip+p.nHdr {
		return p.genTargeted(idx - p.nFlip - p.nHdr)
	}
	if idx >= p.nFlip {
		return p.genHeader(idx - p.nFlip)
	}
	fi := 0
	lo := 0
	for fi = 0; fi < len(p.cum); fi++ {
		if idx < p.cum[fi] {
			break
		}
		lo = p.cum[fi]
	}
	f := &p.files[fi]
	x := idx - lo
	pi := x % f.npat
	x /= f.npat
	l := x%16 + 1
	bit := x / 16
	if bit+l > f.nbits || burstExcluded(bit, l) {
		return nil
	}
	// pattern: first and last bit set, middle from pi
	var mask uint32 = 1
	if l > 1 {
		mask |= 1 << uint(l-1)
	}
	if l > 2 {
		nmid := uint(l - 2)
		var mid uint32
		space := uint32(1) << nmid
		if uint32(f.npat) >= space {
			if uint32(pi) >= space {
				return nil
			}
			mid = uint32(pi)
		} else {
			switch pi {
			case 0:
				mid = 0
			case 1:
				mid = space - 1
			default:
				mid = uint32(splitmix(uint64(idx))) & (space - 1)
			}
		}
		mask |= mid << 1
	} else if pi > 0 {
		return nil
	}
	med := f.med
	med.Flips = []Flip{{Bit: bit, Len: l, Mask: mask}}
	plan := planFull()
	if splitmix(uint64(idx))%8 == 0 {
		plan = planK(5)
	}
	sc := &Scenario{V: 1, Property: "C04", Engine: "rx", Family: "flip", Seed: p.seed, Index: idx,
		Media: []Medium{med}, Params: map[string]string{"file": f.name},
		Tasks: []Task{{ID: 0, Call: "Decode", In: "m0", Read: plan}, {ID: 1, Call: "CheckIntegrity", In: "m0", Read: plan}}}
	if splitmix(uint64(idx)^0x5bd1)%4 == 1 {
		// the verdict of Decode must not depend on its options either
		sc.Tasks = append(sc.Tasks, Task{ID: 2, Call: "Decode", In: "m0", Read: plan, Opts: []string{"logger", "unknownFields", "unknownMessages"}})
	}
	return sc
}

// genProduced: "a file that Encode produced passes CheckIntegrity" - Files with
// stale header/CRC fields, 12- and 14-byte headers, both byte orders, encoded
// once, twice with a header change in between, or behind earlier bytes of a
// bytes.Buffer.
func (p *propC04) genProduced(i int) *Scenario {
	r := NewRng(p.seed, "C04/prod", i)
	mf := genModelFile(r, MFOpts{InDomain: true, MaxMsgs: r.Range(1, 5), MaxFields: r.Range(1, 6)})
	t := Task{ID: 0, Call: "Encode", File: mf, Arch: []string{"le", "be"}[i%2]}
	mode := []string{"once", "twice-header-changed", "appended", "once"}[(i/2)%4]
	switch mode {
	case "twice-header-changed":
		np := byte(0x10)
		if mf.Proto == 0x10 {
			np = 0x20
		}
		t.Repeat = 2
		t.Between = "proto:" + itoa(int(np))
	case "appended":
		t.Sink = "buffer+"
	}
	return &Scenario{V: 1, Property: "C04", Engine: "rx", Family: "produced", Seed: p.seed, Index: p.nFlip + p.nHdr + p.nTgt + i,
		Params: map[string]string{"mode": mode}, Tasks: []Task{t}}
}

func (p *propC04) checkProduced(sc *Scenario, st *Stats) []Violation {
	var vs []Violation
	if len(sc.Tasks) == 0 || sc.Tasks[0].Call != "Encode" || sc.Tasks[0].File == nil || fileOutOfDomain(sc.Tasks[0].File) {
		return nil
	}
	enc := runTask(&sc.Tasks[0], nil, nil, nil)
	st.Observe(enc)
	if enc.BuildErr != "" || enc.Panic != "" || enc.ErrClass != "nil" {
		return nil // Encode failing on an in-domain File is C05/C06's business
	}
	st.Probe("file produced by Encode")
	st.Nontrivial++
	hs := "12"
	if len(enc.Out) > 0 && enc.Out[0] == 14 {
		hs = "14"
	}
	for _, c := range []string{"CheckIntegrity", "CheckIntegrityHeader", "DecodeHeader", "Decode", "HeaderCheckIntegrity"} {
		plan := planFull()
		if sc.Index%3 == 1 {
			// every read schedule: short reads, (0,nil) results, EOF together with the last bytes
			plan = genPlan(NewRng(p.seed, "C04/prodplan", sc.Index), true, true)
		}
		r := runTask(&Task{ID: 1, Call: c, In: "m0", Read: plan}, map[string][]byte{"m0": enc.Out}, nil, nil)
		st.Observe(r)
		st.Key(c, "produced", sc.Params["mode"], hs)
		if r.Panic != "" {
			vs = append(vs, Violation{Property: "C04", Class: "C04/produced/" + c + "/panic", Detail: fmt.Sprintf("%s panicked on a file Encode produced (%s): %s", c, sc.Params["mode"], r.Panic)})
		} else if r.ErrClass != "nil" {
			vs = append(vs, Violation{Property: "C04", Class: "C04/produced/" + c + "/rejects-encoder-output", Detail: fmt.Sprintf("%s rejects a file Encode produced (%s, %s-byte header): %s", c, sc.Params["mode"], hs, r.Err)})
		}
	}
	return vs
}

func (p *propC04) genHeader(i int) *Scenario {
	r := NewRng(p.seed, "C04/hdr", i)
	ft := supportedFileTypes[r.Intn(len(supportedFileTypes))]
	rs := genStream(r, StreamOpts{FT: ft, NData: r.Range(0, 3), Arch: 2, Hdr14: true, MaxFields: 3})
	protos := []byte{0x10, 0x20, 0x00, 0x1F, 0x2F, 0x21}
	rs.Header.Proto = protos[r.Intn(len(protos))]
	rs.Header.Profile = uint16(r.U64())
	mode := []string{"ok", "zero", "bit", "rand", "none"}[r.Intn(5)]
	switch mode {
	case "none":
		// 12-byte header: no CRC to check; every API must accept it, whatever it saw before
		rs.Header.Size = 12
		rs.Header.HCRC = ""
	case "ok", "zero":
		rs.Header.HCRC = mode
	default:
		// compute the correct CRC for this header to derive a wrong one
		b := rs.Build()
		c := get16(b[12:14], false)
		rs.Header.HCRC = "val"
		if mode == "bit" {
			rs.Header.HCRCVal = c ^ (1 << uint(r.Intn(16)))
		} else {
			rs.Header.HCRCVal = uint16(r.U64())
		}
		if rs.Header.HCRCVal == 0 {
			rs.Header.HCRCVal = 1
		}
	}
	plan := genPlan(r, false, false)
	sc := &Scenario{V: 1, Property: "C04", Engine: "rx", Family: "header", Seed: p.seed, Index: p.nFlip + i,
		Media: []Medium{{ID: "m0", Records: rs}}, Params: map[string]string{"mode": mode}}
	for j, c := range []string{"CheckIntegrityHeader", "DecodeHeader", "Decode", "HeaderCheckIntegrity"} {
		sc.Tasks = append(sc.Tasks, Task{ID: j, Call: c, In: "m0", Read: plan})
	}
	return sc
}

func (p *propC04) Check(sc *Scenario, st *Stats) []Violation {
	var vs []Violation
	bad := func(class, format string, a ...interface{}) {
		vs = append(vs, Violation{Property: "C04", Class: "C04/" + class, Detail: fmt.Sprintf(format, a...)})
	}
	if sc.Family == "header" {
		return p.checkHeader(sc, st)
	}
	if sc.Family == "produced" {
		return p.checkProduced(sc, st)
	}
	if len(sc.Media) == 0 || len(sc.Media[0].Flips) != 1 {
		return nil
	}
	fl := sc.Media[0].Flips[0]
	if burstExcluded(fl.Bit, fl.Len) || fl.Len < 1 || fl.Len > 16 || fl.Mask&1 == 0 || fl.Mask>>uint(fl.Len-1)&1 == 0 || fl.Mask>>uint(fl.Len) != 0 {
		return nil
	}
	// precondition on the uncorrupted medium
	clean := *sc
	cm := sc.Media[0]
	cm.Flips = nil
	clean.Media = []Medium{cm}
	cleanBytes := clean.buildMedia()["m0"]
	f := parseFrame(cleanBytes, 0)
	if f == nil || len(f.Problems) > 0 || f.End != len(cleanBytes) || fl.Bit+fl.Len > 8*len(cleanBytes) {
		return nil
	}
	for _, c := range []string{"Decode", "CheckIntegrity"} {
		r := runTask(&Task{Call: c, In: "m0", Read: planFull()}, map[string][]byte{"m0": cleanBytes}, nil, nil)
		if r.ErrClass != "nil" {
			if c == "CheckIntegrity" && r.Panic == "" {
				// first sentence of the property: what Decode accepts (or Encode produced) passes CheckIntegrity
				bad("CheckIntegrity/rejects-file-Decode-accepts", "the uncorrupted file is accepted by Decode but CheckIntegrity says: %s", r.Err)
				return vs
			}
			return nil // Decode does not accept it: not a pool file for this property
		}
	}
	st.Probe("precondition: pool file passes both")
	pos := posClass([]*Frame{f}, fl.Bit/8, len(cleanBytes))
	if f.HasHCRC && fl.Bit/8 >= 12 && fl.Bit/8 < 14 {
		pos = "header-crc"
	}
	lastByte := (fl.Bit + fl.Len - 1) / 8
	st.ProbeIf(fl.Bit/8 < f.HeaderSize && lastByte >= f.HeaderSize, "burst across header/data boundary")
	st.ProbeIf(fl.Bit/8 >= f.End-2, "burst inside stored file CRC")
	st.ProbeIf(pos == "header-crc", "burst inside stored header CRC")
	res := runScenarioSeq(sc)
	media := sc.buildMedia()["m0"]
	if f.HasHCRC && f.HCRC != 0 && get16(media[12:14], false) == 0 {
		st.Probe("stored header CRC turned to 0")
	}
	st.Nontrivial++
	st.ProbeIf(sc.Params["target"] != "", "targeted burst: stored CRC forced to a special value")
	for _, r := range res {
		st.Observe(r)
		src := "model"
		if sc.Media[0].Corpus != "" {
			src = "corpus"
		} else if sc.Media[0].Encode != nil {
			src = "encode"
		}
		st.Key(r.Call, src, pos, fl.Len)
		if r.Panic != "" {
			bad(r.Call+"/panic", "%s panicked on corrupted input: %s", r.Call, r.Panic)
			continue
		}
		if r.ErrClass == "nil" {
			bad(r.Call+"/accepts-corruption/"+pos, "%s accepted a file with a %d-bit burst (mask %#x) at bit %d (byte %d, %s)", r.Call, fl.Len, fl.Mask, fl.Bit, fl.Bit/8, pos)
		}
	}
	return vs
}

func (p *propC04) checkHeader(sc *Scenario, st *Stats) []Violation {
	var vs []Violation
	bad := func(class, format string, a ...interface{}) {
		vs = append(vs, Violation{Property: "C04", Class: "C04/header/" + class, Detail: fmt.Sprintf(format, a...)})
	}
	b := sc.buildMedia()["m0"]
	if len(b) < 14 || (b[0] != 14 && b[0] != 12) {
		return nil
	}
	stored := get16(b[12:14], false)
	correct := crc16(b[:12])
	state := "mismatching"
	switch {
	case b[0] == 12:
		state = "none"
	case stored == correct:
		state = "matching"
	case stored == 0:
		state = "zero"
	}
	st.Probe("header matrix: " + state)
	res := runScenarioSeq(sc)
	verdict := map[string]string{}
	for _, r := range res {
		st.Observe(r)
		if r.Panic != "" {
			bad(r.Call+"/panic", "%s panicked: %s", r.Call, r.Panic)
			return vs
		}
		v := "accept"
		if r.ErrClass != "nil" {
			v = "reject"
		}
		verdict[r.Call] = v
		st.Key("hdr", r.Call, state, v)
	}
	st.Nontrivial++
	protoOK := b[1]>>4 <= 2
	switch state {
	case "mismatching":
		for _, c := range []string{"CheckIntegrityHeader", "DecodeHeader", "Decode", "HeaderCheckIntegrity"} {
			if verdict[c] != "reject" {
				bad(c+"/accepts-bad-header-crc", "%s accepted a header whose stored CRC %#04x does not match its contents (computed %#04x)", c, stored, correct)
			}
		}
	case "matching", "none":
		if protoOK {
			for _, c := range []string{"CheckIntegrityHeader", "DecodeHeader", "Decode", "HeaderCheckIntegrity"} {
				if verdict[c] != "accept" {
					bad(c+"/rejects-good-header", "%s rejected a header whose stored CRC matches (proto %#02x)", c, b[1])
				}
			}
		}
	}
	// whatever the state: the four verdicts must agree
	first := ""
	for _, c := range []string{"CheckIntegrityHeader", "DecodeHeader", "Decode", "HeaderCheckIntegrity"} {
		if first == "" {
			first = verdict[c]
		} else if verdict[c] != first && len(vs) == 0 {
			bad("verdicts-disagree/"+state, "verdicts differ for a %s header CRC: %v", state, verdict)
			break
		}
	}
	return vs
}

// Targeted bursts. A uniform pattern sample almost never hits the one burst
// that makes a stored CRC equal to a value some code path might treat
// specially (0 = "not computed" for header CRCs). These are single bursts of
// <= 16 bits by construction: the XOR of the stored value and the target.
var c04Targets = []struct {
	where  string // "file" | "header"
	target uint16
}{{"file", 0x0000}, {"file", 0xFFFF}, {"header", 0x0000}, {"header", 0xFFFF}, {"file", 0x0001}, {"file", 0x8000}}

func (p *propC04) genTargeted(i int) *Scenario {
	f := &p.files[i/len(c04Targets)]
	tg := c04Targets[i%len(c04Targets)]
	pos := f.frame.End - 2
	if tg.where == "header" {
		if !f.frame.HasHCRC {
			return nil
		}
		pos = 12
	}
	stored := get16(f.bytes[pos:pos+2], false)
	x := stored ^ tg.target
	if x == 0 {
		return nil
	}
	lo, hi := 0, 15
	for x>>uint(lo)&1 == 0 {
		lo++
	}
	for x>>uint(hi)&1 == 0 {
		hi--
	}
	med := f.med
	med.Flips = []Flip{{Bit: 8*pos + lo, Len: hi - lo + 1, Mask: uint32(x >> uint(lo))}}
	return &Scenario{V: 1, Property: "C04", Engine: "rx", Family: "flip", Seed: p.seed, Index: p.nFlip + p.nHdr + i,
		Media: []Medium{med}, Params: map[string]string{"file": f.name, "target": tg.where + "->" + itoa(int(tg.target))},
		Tasks: []Task{{ID: 0, Call: "Decode", In: "m0", Read: planFull()}, {ID: 1, Call: "CheckIntegrity", In: "m0", Read: planFull()}}}
}
