package main

import (
	"fmt"

	"github.com/tormoder/fit"
)

// C12 - timestamps follow the FIT time rules, including compressed headers.

type propC12 struct {
	seed  uint64
	tier  string
	count int
	hosts []ftMesg // (file type, message) pairs where the message has a time field
}

func init() { register(&propC12{}) }

func (p *propC12) ID() string     { return "C12" }
func (p *propC12) Engine() string { return "rx" }
func (p *propC12) Level() string  { return "exploration" }
func (p *propC12) Rule() string {
	return "scenario = a model-built stream for a file type that exposes time fields: explicit field-253 records, compressed-timestamp records on local types 0-3 with all 32 offsets, runs of 1-200 compressed records engineered to cross 32-second boundaries, explicit re-basing in between, one scenario in eight as a chain of 2-3 such files through DecodeChained (each file judged by its own reference), invalid 0xFFFFFFFF timestamps, local timestamps before and after a reference, definitions that contain field 253 and arrive under a compressed header, unknown messages under compressed headers; both byte orders; decoded through a seeded read plan and compared record by record with the time model. " +
		"key = (message, time source kind explicit|compressed|local|other-utc, rollover?, byte order); non-trivial when >= 1 compressed record followed a reference"
}
func (p *propC12) Assumptions() []string {
	return []string{
		"time model = SDK rule: ts = (ref & ~31) + off, +32 if off < (ref & 31); re-based by every valid field 253 of a known message; local = reference instant in a zone of offset local-UTC (offset 0 without reference)",
		"don't-care 4: a reference below 0x10000000 and records that follow a local timestamp seen without reference are 'reference unknown': compressed instants are not checked and local times only by wall-clock reading until the next explicit valid timestamp",
		"zone names are not compared (instant and offset are)",
	}
}
func (p *propC12) ProbeNames() []string {
	return []string{"rollover taken", "offset equal to previous", "re-base between two compressed records", "local time with reference", "local time without reference", "field 253 under a compressed header", "invalid timestamp", "compressed record of a message without timestamp field", "compressed unknown message", "later file of a chain"}
}

func (p *propC12) Prepare(seed uint64, tier string) int {
	p.seed, p.tier = seed, tier
	p.hosts = nil
	for _, ft := range supportedFileTypes {
		for _, mn := range hostedMesgNums(ft) {
			for _, pf := range prof.byMesg[mn] {
				if pf.Kind == kindUTC || pf.Kind == kindLocal {
					p.hosts = append(p.hosts, ftMesg{ft, mn})
					break
				}
			}
		}
	}
	p.count = 300000
	if isThorough(tier) {
		p.count = 3000000
	}
	return p.count
}

func (p *propC12) Gen(idx int) *Scenario {
	r := NewRng(p.seed, "C12", idx)
	h := p.hosts[idx%len(p.hosts)]
	arch := (idx / len(p.hosts)) % 3
	plan := genPlan(r, false, true)
	sc := &Scenario{V: 1, Property: "C12", Engine: "rx", Seed: p.seed, Index: idx}
	if idx%8 == 5 {
		// chained family: every file of a chain has its own time reference;
		// nothing of the previous file's clock may reach the next one
		sc.Family = "chain"
		n := r.Range(2, 3)
		var ids []string
		for i := 0; i < n; i++ {
			hh := h
			if i > 0 && r.Bool() {
				hh = p.hosts[r.Intn(len(p.hosts))]
			}
			id := fmt.Sprintf("f%d", i)
			sc.Media = append(sc.Media, Medium{ID: id, Records: p.genStream(r, hh, arch)})
			ids = append(ids, id)
		}
		sc.Media = append(sc.Media, Medium{ID: "m0", Chain: ids})
		sc.Tasks = []Task{{ID: 0, Call: "DecodeChained", In: "m0", Read: plan}}
		return sc
	}
	sc.Media = []Medium{{ID: "m0", Records: p.genStream(r, h, arch)}}
	sc.Tasks = []Task{{ID: 0, Call: "Decode", In: "m0", Read: plan}}
	return sc
}

func (p *propC12) genStream(r *Rng, h ftMesg, arch int) *RecStream {
	g := &streamGen{r: r, o: StreamOpts{FT: h.ft, Arch: arch}}
	fl := byte(4 + r.Intn(12))
	if r.Bool() {
		// file_id.time_created is a date_time like any other: it is no timestamp
		// field (253) and must not become the reference of what follows
		fd := &DefOp{Local: fl, Arch: g.arch(), Global: 0, Fields: [][3]int{{0, 1, 0}, {4, 4, 0x86}}}
		g.emitDef(fd)
		tc := make([]byte, 4)
		putN(tc, fd.be(), uint64(0x10000000+r.U64()%0xE0000000))
		g.emitData(fl, false, 0, append([]byte{h.ft}, tc...))
	} else {
		g.emitDef(&DefOp{Local: fl, Arch: g.arch(), Global: 0, Fields: [][3]int{{0, 1, 0}}})
		g.emitData(fl, false, 0, []byte{h.ft})
	}
	// candidate messages: the target plus other hosted ones and an unknown one
	cands := []uint16{h.mn, h.mn, h.mn}
	for _, mn := range hostedMesgNums(h.ft) {
		if len(prof.byMesg[mn]) > 0 {
			cands = append(cands, mn)
		}
	}
	ref := uint32(0x10000000 + r.U64()%0xD0000000)
	if r.Chance(1, 10) {
		ref |= 0x1F // start right below a rollover
	}
	switch r.Intn(12) {
	case 0:
		ref = 0xFFFFFFFE - uint32(r.Intn(90)) // top of the 32-bit range: rollovers carry past 2^32
	case 1:
		ref = 0x80000000 - uint32(r.Intn(64)) + uint32(r.Intn(128)) // around the sign bit
	}
	mkDef := func(local byte, gl uint16, withTS, withLocal bool) *DefOp {
		d := &DefOp{Local: local, Arch: g.arch(), Global: gl}
		if !prof.Known(gl) {
			d.Fields = [][3]int{{3, 2, 0x84}}
			if withTS {
				d.Fields = append(d.Fields, [3]int{253, 4, 0x86})
			}
			return d
		}
		var other []*PField
		for _, pf := range prof.byMesg[gl] {
			switch {
			case pf.Num == 253 && pf.Kind == kindUTC:
				if withTS {
					d.Fields = append(d.Fields, [3]int{253, 4, 0x86})
				}
			case pf.Kind == kindLocal:
				if withLocal {
					d.Fields = append(d.Fields, [3]int{int(pf.Num), 4, 0x86})
				}
			case pf.Kind == kindUTC:
				if r.Chance(1, 3) {
					d.Fields = append(d.Fields, [3]int{int(pf.Num), 4, 0x86})
				}
			case pf.Kind == kindNative && !pf.Array && !baseOf(pf.Base).String && !(gl == gRecord && accumSources[pf.Num]):
				other = append(other, pf)
			}
		}
		if len(other) > 0 && r.Chance(2, 3) {
			pf := other[r.Intn(len(other))]
			d.Fields = append(d.Fields, [3]int{int(pf.Num), baseOf(pf.Base).Size, int(pf.Base)})
		}
		// seeded field order: local time before or after the timestamp matters
		perm := r.Perm(len(d.Fields))
		nf := make([][3]int, len(d.Fields))
		for i, j := range perm {
			nf[i] = d.Fields[j]
		}
		d.Fields = nf
		return d
	}
	initAccumSources()
	zoneBase := int64(r.Intn(2*50400+1) - 50400)
	data := func(d *DefOp) []byte {
		var out []byte
		for _, fd := range d.Fields {
			pf := prof.Field(d.Global, byte(fd[0]))
			b := make([]byte, fd[1])
			switch {
			case fd[0] == 253 && fd[1] == 4:
				v := ref
				switch r.Intn(12) {
				case 0:
					v = 0xFFFFFFFF
				case 1:
					if r.Chance(1, 3) {
						v = uint32(r.Intn(0x10000000)) // system time: reference becomes unknown
					}
				default:
					ref += uint32(r.Intn(70))
					v = ref
				}
				putN(b, d.be(), uint64(v))
			case pf != nil && pf.Kind == kindLocal:
				off := int64(r.Intn(57)-28) * 1800
				switch r.Intn(4) {
				case 0:
					// the stream's own zone, or a few seconds next to it (two clocks that
					// are not aligned to the second): offsets that differ by less than
					// any bucket a cache might use
					off = zoneBase + int64(r.Intn(5)-2)
				case 1:
					off = int64(r.Intn(2*50400+1) - 50400) // any second within +-14 h
				}
				v := int64(ref) + off
				if r.Chance(1, 12) {
					v = 0xFFFFFFFF
				}
				putN(b, d.be(), uint64(uint32(v)))
			case pf != nil && pf.Kind == kindUTC:
				putN(b, d.be(), uint64(0x10000000+r.U64()%0xE0000000))
				if r.Chance(1, 10) {
					putN(b, d.be(), 0xFFFFFFFF)
				}
			case pf != nil:
				putN(b, d.be(), pickValue(r, baseOf(byte(fd[2])), false))
			default:
				copy(b, r.Bytes(len(b)))
			}
			out = append(out, b...)
		}
		return out
	}
	nsteps := r.Range(2, 14)
	for s := 0; s < nsteps; s++ {
		gl := cands[r.Intn(len(cands))]
		if r.Chance(1, 15) {
			gl = unknownGlobal(r)
		}
		local := byte(r.Intn(4))
		if r.Chance(1, 5) {
			local = byte(r.Intn(16))
		}
		d := mkDef(local, gl, r.Chance(2, 3), r.Chance(1, 2))
		g.emitDef(d)
		switch r.Intn(4) {
		case 0: // plain explicit records
			for k := r.Range(1, 3); k > 0; k-- {
				g.emitData(local, false, 0, data(d))
			}
		default: // run of compressed records
			if local > 3 {
				g.emitData(local, false, 0, data(d))
				break
			}
			n := r.Range(1, 12)
			if r.Chance(1, 20) {
				n = r.Range(50, 200)
			}
			off := byte(r.Intn(32))
			for k := 0; k < n; k++ {
				switch r.Intn(5) {
				case 0: // same offset
				case 1:
					off = byte(r.Intn(32))
				default:
					off = (off + byte(r.Range(1, 9))) & 31
				}
				g.emitData(local, true, off, data(d))
				if r.Chance(1, 10) {
					// explicit record in between (re-base)
					g.emitData(local, false, 0, data(d))
				}
			}
		}
	}
	return &RecStream{Header: HeaderSpec{Size: 12 + 2*r.Intn(2), Proto: 0x20, Profile: 2115, HCRC: "ok"}, Ops: g.ops}
}

func (p *propC12) Check(sc *Scenario, st *Stats) []Violation {
	if len(sc.Media) == 0 || len(sc.Tasks) == 0 {
		return nil
	}
	// the streams of the scenario: one, or the members of a chain
	var streams []*RecStream
	last := &sc.Media[len(sc.Media)-1]
	if len(last.Chain) > 0 {
		for _, id := range last.Chain {
			m := sc.medium(id)
			if m == nil || m.Records == nil {
				return nil
			}
			streams = append(streams, m.Records)
		}
	} else if sc.Media[0].Records != nil {
		streams = []*RecStream{sc.Media[0].Records}
	} else {
		return nil
	}
	var fts []byte
	var mos []*ModelOut
	for _, rs := range streams {
		if !streamSane(rs.Ops) {
			return nil
		}
		ft, ok := fileTypeOfOps(rs.Ops)
		if !ok || !isSupportedFileType(ft) {
			return nil
		}
		mo := interpret(rs.Ops)
		if mo.ErrOp >= 0 {
			return nil
		}
		fts, mos = append(fts, ft), append(mos, mo)
	}
	r := runTask(&sc.Tasks[0], sc.buildMedia(), nil, nil)
	st.Observe(r)
	if r.Panic != "" {
		return []Violation{{Property: "C12", Class: "C12/panic", Detail: r.Panic}}
	}
	if r.ErrClass != "nil" {
		return []Violation{{Property: "C12", Class: "C12/rejects-wellformed", Detail: sc.Tasks[0].Call + " failed: " + r.Err}}
	}
	files := r.files
	if sc.Tasks[0].Call != "DecodeChained" {
		files = []*fit.File{r.file}
	}
	if len(files) != len(streams) {
		return []Violation{{Property: "C12", Class: "C12/chain-length", Detail: fmt.Sprintf("DecodeChained returned %d files for a chain of %d", len(files), len(streams))}}
	}
	var vs []Violation
	seen := map[string]bool{}
	for i, rs := range streams {
		st.ProbeIf(i > 0, "later file of a chain")
		for _, v := range p.checkStream(rs, files[i], fts[i], mos[i], i, st) {
			if seen[v.Class] || len(vs) >= 4 {
				continue
			}
			seen[v.Class] = true
			vs = append(vs, v)
		}
	}
	return vs
}

func (p *propC12) checkStream(rs *RecStream, file *fit.File, ft byte, mo *ModelOut, pos int, st *Stats) []Violation {
	var vs []Violation
	// probes: replay the time rule over the ops
	var defs [16]*DefOp
	var ref uint32
	refSet := false
	prevComp := false
	rebasedSinceComp := false
	nontrivial := false
	for i := range rs.Ops {
		op := &rs.Ops[i]
		if op.Def != nil {
			defs[op.Def.Local&15] = op.Def
			continue
		}
		l := op.Data.Local & 15
		if op.Data.Comp {
			l &= 3
		}
		d := defs[l]
		has253 := false
		pl := unhex(op.Data.Bytes)
		off := 0
		var ts uint32
		for _, fd := range d.Fields {
			if fd[0] == 253 && fd[1] == 4 && prof.Known(d.Global) && prof.Field(d.Global, 253) != nil {
				has253 = true
				ts = uint32(getN(pl[off:off+4], d.be()))
			}
			if pf := prof.Field(d.Global, byte(fd[0])); pf != nil && pf.Kind == kindLocal && prof.Known(d.Global) {
				if refSet {
					st.Probe("local time with reference")
				} else {
					st.Probe("local time without reference")
				}
			}
			off += fd[1]
		}
		order := d.Arch
		if op.Data.Comp {
			if refSet {
				nontrivial = true
				o := uint32(op.Data.Off & 31)
				roll := o < ref&31
				st.ProbeIf(roll, "rollover taken")
				st.ProbeIf(o == ref&31, "offset equal to previous")
				st.ProbeIf(prevComp && rebasedSinceComp, "re-base between two compressed records")
				nr := ref&^31 + o
				if roll {
					nr += 32
				}
				ref = nr
				st.Key(d.Global, "compressed", roll, order)
			}
			st.ProbeIf(has253, "field 253 under a compressed header")
			st.ProbeIf(!prof.Known(d.Global), "compressed unknown message")
			st.ProbeIf(prof.Known(d.Global) && prof.Field(d.Global, 253) == nil, "compressed record of a message without timestamp field")
			prevComp = true
			rebasedSinceComp = false
		}
		if has253 {
			if ts == 0xFFFFFFFF {
				st.Probe("invalid timestamp")
			} else {
				ref, refSet = ts, true
				rebasedSinceComp = true
				st.Key(d.Global, "explicit", false, order)
			}
		}
	}
	if nontrivial {
		st.Nontrivial++
	}
	diffs := compareFile(file, ft, mo.Msgs, compareOpts{skipAccum: true}, st)
	seen := map[string]bool{}
	where := ""
	if pos > 0 {
		where = fmt.Sprintf(", file %d of the chain", pos+1)
	}
	for _, d := range diffs {
		cls := "C12/" + d.Shape
		if seen[cls] {
			continue
		}
		seen[cls] = true
		vs = append(vs, Violation{Property: "C12", Class: cls, Detail: fmt.Sprintf("%s (message %s%s)", d.String(), prof.MesgName(d.Global), where)})
		if len(vs) >= 4 {
			break
		}
	}
	return vs
}
