package main

import (
	"fmt"
	"strings"
)

// C10 - framing: a decode consumes exactly one file; chained files are
// independent; no entry point reads past the frame, however reads are chunked.

type propC10 struct {
	seed  uint64
	tier  string
	pool  []poolEntry // valid single frames
	count int
}

func init() { register(&propC10{}) }

func (p *propC10) ID() string     { return "C10" }
func (p *propC10) Engine() string { return "rx" }
func (p *propC10) Level() string  { return "exploration" }
func (p *propC10) Rule() string {
	return "scenario = a layout (single valid frame + tail of nothing / another valid file / random bytes / a lone 0x0E, or a chain of 1-4 valid frames) read by all entry points under one seeded read plan and under the plain plan; " +
		"key = (entry point, layout, plan class, number of 4096-byte fills 0/1/many, tail kind); non-trivial when bytes existed behind the frame or the plan was not 'full'"
}
func (p *propC10) Assumptions() []string {
	return []string{
		"frames in the pool are valid: the independent wire parser accepts them and plain Decode accepts them (checked at start-up)",
		"inputs carrying accumulated component sources are excluded (known finding D11 would make 'decode twice, compare' differ)",
		"over-reading is observed as bytes actually delivered by the reader; the greedy 'full' plan makes any over-request observable",
	}
}
func (p *propC10) ProbeNames() []string {
	return []string{"greedy read at frame end", "one call per file on the same reader", "chain holds a file and its byte-order twin", "frame end on a 4096 multiple", "crc-only path with > 32 KiB data", "stutter consumed", "chain of >= 2 frames", "tail: valid file behind frame", "eof delivered with data"}
}

// padFrameTo appends an unknown-message filler so that the data size becomes target.
func padStream(rs *RecStream, extra int) {
	for extra > 0 {
		// def: 6 + 3 = 9 bytes, data: 1 + n bytes
		n := extra - 10
		if n > 255 {
			n = 255
		}
		if n < 0 {
			return
		}
		rs.Ops = append(rs.Ops, Op{Def: &DefOp{Local: 9, Arch: "le", Global: 0xFF10, Fields: [][3]int{{1, n, 0x0D}}}})
		rs.Ops = append(rs.Ops, Op{Data: &DataOp{Local: 9, Bytes: strings.Repeat("5a", n)}})
		extra -= 10 + n
	}
}

func (p *propC10) Prepare(seed uint64, tier string) int {
	p.seed, p.tier = seed, tier
	maxCorpus := 160000
	nModel := 40
	p.count = 40000
	if isThorough(tier) {
		maxCorpus = 1100000
		nModel = 200
		p.count = 400000
	}
	p.pool = corpusFrames(maxCorpus, false)
	// model-built frames, some engineered around buffer boundaries
	for i := 0; i < nModel; i++ {
		r := NewRng(seed, "C10/pool", i)
		ft := supportedFileTypes[r.Intn(len(supportedFileTypes))]
		rs := genStream(r, StreamOpts{FT: ft, NData: r.Range(0, 30), Arch: 2, Unknown: true, Dev: true, Compressed: true, Unhosted: true, Hdr14: r.Bool(), HCRCZero: r.Chance(1, 4), Narrow: false})
		if i%10 == 5 {
			withJumbo(r, rs)
		}
		b := rs.Build()
		if i%4 == 0 {
			// engineer the frame end / data size onto 4096 multiples (+-1)
			hs := rs.Header.Size
			cur := len(b) - hs - 2
			target := 4096*r.Range(1, 3) + r.Range(-1, 1)
			if i%8 == 0 {
				target = 4096*r.Range(1, 3) - hs - 2 // frame end on a multiple
			}
			if target > cur+10 {
				padStream(rs, target-cur)
				b = rs.Build()
			}
		}
		f := parseFrame(b, 0)
		if f == nil || len(f.Problems) > 0 {
			continue
		}
		// no "does the decoder under test accept it" filter here: a model-built
		// valid frame that Decode rejects is reported by the scenarios (rejects-valid)
		p.pool = append(p.pool, poolEntry{Name: fmt.Sprintf("model%d", i), Bytes: b, Med: Medium{Records: rs}, FT: ft})
	}
	// records with 70-110 bytes of developer data each (paths that skip rather than
	// parse, across every read boundary)
	for i := 0; i < 2; i++ {
		r := NewRng(seed, "C10/dev", i)
		n := r.Range(70, 110)
		rs := &RecStream{Header: HeaderSpec{Size: 12 + 2*i, Proto: 0x20, Profile: 2115, HCRC: "ok"}, Ops: []Op{
			{Def: &DefOp{Local: 0, Arch: "le", Global: 0, Fields: [][3]int{{0, 1, 0}}}},
			{Data: &DataOp{Local: 0, Bytes: "04"}},
			{Def: &DefOp{Local: 1, Arch: []string{"le", "be"}[i], Global: 20, Fields: [][3]int{{3, 1, 2}}, Dev: [][3]int{{0, n, 0}, {1, 4, 0}}}},
			{Data: &DataOp{Local: 1, Bytes: "50" + hexs(r.Bytes(n+4))}},
			{Data: &DataOp{Local: 1, Bytes: "51" + hexs(r.Bytes(n+4))}},
			{Data: &DataOp{Local: 1, Bytes: "52" + hexs(r.Bytes(n+4))}},
		}}
		p.pool = append(p.pool, poolEntry{Name: fmt.Sprintf("devdata%d", i), Bytes: rs.Build(), Med: Medium{Records: rs}, FT: 4})
	}
	// definitions with 86, 200 and 255 developer fields (counts and byte lengths
	// beyond what fits a byte once multiplied by the descriptor size)
	for i, nd := range []int{86, 200, 255} {
		r := NewRng(seed, "C10/manydev", i)
		d := &DefOp{Local: 2, Arch: []string{"le", "be", "le"}[i], Global: 20, Fields: [][3]int{{3, 1, 2}, {4, 1, 2}}}
		tot := 2
		for k := 0; k < nd; k++ {
			sz := r.Intn(3)
			d.Dev = append(d.Dev, [3]int{k, sz, r.Intn(4)})
			tot += sz
		}
		rs := &RecStream{Header: HeaderSpec{Size: 12 + 2*(i%2), Proto: 0x20, Profile: 2115, HCRC: "ok"}, Ops: []Op{
			{Def: &DefOp{Local: 0, Arch: "le", Global: 0, Fields: [][3]int{{0, 1, 0}}}},
			{Data: &DataOp{Local: 0, Bytes: "04"}},
			{Def: d},
			{Data: &DataOp{Local: 2, Bytes: hexs(r.Bytes(tot))}},
			{Data: &DataOp{Local: 2, Bytes: hexs(r.Bytes(tot))}},
			{Def: &DefOp{Local: 3, Arch: "le", Global: 20, Fields: [][3]int{{3, 1, 2}}}},
			{Data: &DataOp{Local: 3, Bytes: "55"}},
			{Data: &DataOp{Local: 2, Bytes: hexs(r.Bytes(tot))}},
		}}
		p.pool = append(p.pool, poolEntry{Name: fmt.Sprintf("manydev%d", nd), Bytes: rs.Build(), Med: Medium{Records: rs}, FT: 4})
	}
	for i, rs := range stateProbeStreams(NewRng(seed, "C10/stateprobe", 0)) {
		b := rs.Build()
		f := parseFrame(b, 0)
		if f == nil || len(f.Problems) > 0 || !plainDecodeOK(b) {
			continue
		}
		p.pool = append(p.pool, poolEntry{Name: fmt.Sprintf("stateprobe%d", i), Bytes: b, Med: Medium{Records: rs}})
	}
	if len(p.pool) == 0 {
		fatalInfra("C10: empty pool")
	}
	return p.count
}

var c10Calls = []string{"Decode", "CheckIntegrity", "CheckIntegrityHeader", "DecodeHeader", "DecodeHeaderAndFileID", "DecodeChained"}

func (p *propC10) Gen(idx int) *Scenario {
	r := NewRng(p.seed, "C10", idx)
	sc := &Scenario{V: 1, Property: "C10", Engine: "rx", Seed: p.seed, Index: idx, Params: map[string]string{}}
	pick := func() poolEntry {
		// bias to small entries so big corpus files do not dominate cost
		for k := 0; k < 12; k++ {
			e := p.pool[r.Intn(len(p.pool))]
			if len(e.Bytes) < 20000 || r.Chance(1, 6) {
				return e
			}
		}
		return p.pool[r.Intn(len(p.pool))]
	}
	layout := r.Intn(6)
	nfr := 1
	if layout == 5 {
		nfr = r.Range(2, 4)
		if r.Chance(1, 40) {
			nfr = r.Range(17, 40) // long chains (anything sized for "a few" files)
		}
	}
	var ids []string
	for i := 0; i < nfr; i++ {
		e := pick()
		m := e.Med
		if i > 0 && r.Chance(1, 4) && sc.Media[i-1].Records != nil {
			// the previous file once more with every definition in the other byte order:
			// identical field lists under the opposite architecture flag
			m = Medium{Records: flipStreamArch(sc.Media[i-1].Records)}
			sc.Params["twin_arch"] = "1"
		}
		m.ID = fmt.Sprintf("f%d", i)
		sc.Media = append(sc.Media, m)
		ids = append(ids, m.ID)
	}
	top := Medium{ID: "m0", Hex: "", Chain: ids}
	switch layout {
	case 0:
		sc.Family = "single"
	case 1:
		sc.Family = "single+random-tail"
		top.Tail = hexs(r.Bytes(r.Range(1, 5000)))
	case 2:
		sc.Family = "single+0e"
		top.Tail = "0e"
	case 3:
		sc.Family = "single+junk-header-like"
		top.Tail = "0e10" + hexs(r.Bytes(r.Range(0, 40)))
		if r.Chance(1, 2) {
			sc.Family = "single+zero-padding"
			top.Tail = strings.Repeat("00", r.Range(1, 70))
		}
	case 4:
		sc.Family = "single+valid-file-tail"
		e := pick()
		m := e.Med
		m.ID = "f1"
		sc.Media = append(sc.Media, m)
		top.Chain = append(top.Chain, "f1")
		nfr = 2
	case 5:
		sc.Family = "chain"
	}
	sc.Params["frames"] = itoa(nfr)
	sc.Params["layout"] = sc.Family
	sc.Media = append(sc.Media, top)
	plan := genPlan(r, true, true)
	id := 0
	for _, c := range c10Calls {
		sc.Tasks = append(sc.Tasks, Task{ID: id, Call: c, In: "m0", Read: plan})
		id++
		sc.Tasks = append(sc.Tasks, Task{ID: id, Call: c, In: "m0", Read: planFull()})
		id++
	}
	// each frame alone (for DecodeChained independence)
	for i := 0; i < nfr; i++ {
		sc.Tasks = append(sc.Tasks, Task{ID: id, Call: "Decode", In: fmt.Sprintf("f%d", i), Read: planFull()})
		id++
	}
	// one call per file on the same reader ("consumes exactly the frame" is what
	// lets a caller walk a concatenation file by file): seeded plan, and a
	// seekable standard-library reader, whose position is not 0 from the second call on
	if nfr >= 2 && nfr <= 6 {
		for _, c := range []string{"Decode", "CheckIntegrity"} {
			sc.Tasks = append(sc.Tasks, Task{ID: id, Call: c, In: "m0", Read: plan, Seq: nfr})
			id++
			sc.Tasks = append(sc.Tasks, Task{ID: id, Call: c, In: "m0", Read: ReadPlan{Native: []string{"bytes", "bufio"}[r.Intn(2)]}, Seq: nfr})
			id++
		}
	}
	return sc
}

func contentLines(d []string) []string {
	var out []string
	for _, l := range d {
		if strings.HasPrefix(l, "Header=") || strings.HasPrefix(l, "CRC=") {
			continue
		}
		out = append(out, l)
	}
	return out
}

func findLine(d []string, prefix string) string {
	for _, l := range d {
		if strings.HasPrefix(l, prefix) {
			return l
		}
	}
	return ""
}

func (p *propC10) Check(sc *Scenario, st *Stats) []Violation {
	var vs []Violation
	bad := func(class, format string, a ...interface{}) {
		vs = append(vs, Violation{Property: "C10", Class: "C10/" + class, Detail: fmt.Sprintf(format, a...)})
	}
	media := sc.buildMedia()
	m0 := media["m0"]
	frames, _ := parseChain(m0)
	nfr := 0
	fmt.Sscan(sc.Params["frames"], &nfr)
	if len(frames) < nfr || nfr == 0 {
		// minimisation may have destroyed validity; then the scenario says nothing
		return nil
	}
	for _, f := range frames[:nfr] {
		if len(f.Problems) > 0 {
			return nil
		}
	}
	chainEnd := frames[nfr-1].End
	validChainOnly := chainEnd == len(m0)
	f0 := frames[0]
	res := runScenarioSeq(sc)
	byID := map[int]*Result{}
	for _, r := range res {
		byID[r.Task] = r
		st.Observe(r)
	}
	layout := sc.Params["layout"]
	nontrivial := false
	for ti := 0; ti < len(c10Calls)*2; ti++ {
		t := &sc.Tasks[ti]
		r := byID[t.ID]
		if r == nil {
			continue
		}
		pc := planClass(t.Read)
		fills := "0"
		if f0.DataSize > 4096 {
			fills = "many"
		} else if f0.DataSize > 0 {
			fills = "1"
		}
		if len(m0) > f0.End || pc != "full" {
			nontrivial = true
			st.Key(t.Call, layout, pc, fills)
		}
		if r.Panic != "" {
			bad(t.Call+"/panic", "%s panicked: %s", t.Call, r.Panic)
			continue
		}
		switch t.Call {
		case "Decode", "CheckIntegrity":
			if r.ErrClass != "nil" {
				bad(t.Call+"/rejects-valid/"+pc, "%s failed on a valid frame (%s): %s", t.Call, layout, r.Err)
				continue
			}
			if r.Delivered != f0.End {
				dir := "over-read"
				if r.Delivered < f0.End {
					dir = "under-read"
				}
				bad(t.Call+"/"+dir+"/"+pc, "%s consumed %d bytes, frame is %d (header %d + data %d + 2), plan %s", t.Call, r.Delivered, f0.End, f0.HeaderSize, f0.DataSize, pc)
			}
			st.ProbeIf(pc == "full" && len(m0) > f0.End, "greedy read at frame end")
			st.ProbeIf(f0.End%4096 == 0 || f0.DataSize%4096 == 0, "frame end on a 4096 multiple")
			st.ProbeIf(t.Call == "CheckIntegrity" && f0.DataSize > 32768, "crc-only path with > 32 KiB data")
		case "CheckIntegrityHeader", "DecodeHeader":
			if r.ErrClass != "nil" {
				bad(t.Call+"/rejects-valid/"+pc, "%s failed on a valid frame: %s", t.Call, r.Err)
				continue
			}
			if r.Delivered != f0.HeaderSize {
				bad(t.Call+"/header-read-size/"+pc, "%s consumed %d bytes, header is %d", t.Call, r.Delivered, f0.HeaderSize)
			}
		case "DecodeHeaderAndFileID":
			if r.ErrClass != "nil" {
				bad(t.Call+"/rejects-valid/"+pc, "%s failed on a valid frame: %s", t.Call, r.Err)
				continue
			}
			if r.Delivered > f0.End {
				bad(t.Call+"/over-read/"+pc, "%s consumed %d bytes, frame ends at %d", t.Call, r.Delivered, f0.End)
			}
		case "DecodeChained":
			if validChainOnly {
				if r.ErrClass != "nil" {
					bad("DecodeChained/rejects-valid-chain/"+pc, "DecodeChained failed on %d valid frames: %s", nfr, r.Err)
					continue
				}
				if r.NFiles != nfr {
					bad("DecodeChained/file-count/"+pc, "DecodeChained returned %d files for %d frames", r.NFiles, nfr)
					continue
				}
				if r.Delivered != chainEnd {
					bad("DecodeChained/consumed/"+pc, "DecodeChained consumed %d of %d bytes", r.Delivered, chainEnd)
				}
			} else if r.NFiles < nfr {
				bad("DecodeChained/lost-file/"+pc, "DecodeChained returned %d files, %d valid frames precede the tail", r.NFiles, nfr)
				continue
			}
			st.ProbeIf(nfr >= 2, "chain of >= 2 frames")
			st.ProbeIf(sc.Params["twin_arch"] != "", "chain holds a file and its byte-order twin")
			for i := 0; i < nfr && i < len(r.Dumps); i++ {
				alone := byID[len(c10Calls)*2+i]
				if alone == nil || alone.ErrClass != "nil" {
					continue
				}
				if d := firstDiff(r.Dumps[i], alone.Dump); d != "" {
					bad("DecodeChained/file-differs-from-alone/"+pc, "file #%d of the chain differs from decoding it alone: %s", i+1, d)
					break
				}
			}
		}
		st.ProbeIf(r.Stutters > 0, "stutter consumed")
		st.ProbeIf(r.EOFData, "eof delivered with data")
		// schedule independence: seeded plan vs plain plan
		if ti%2 == 0 {
			base := byID[t.ID+1]
			if base != nil && base.Panic == "" {
				if r.ErrClass != base.ErrClass {
					bad(t.Call+"/schedule-dependent-error/"+pc, "%s: error class %q under plan %s, %q under the plain plan", t.Call, r.ErrClass, pc, base.ErrClass)
				} else if t.Call == "DecodeChained" {
					if len(r.Dumps) != len(base.Dumps) {
						bad(t.Call+"/schedule-dependent-result/"+pc, "DecodeChained: %d files vs %d under the plain plan", len(r.Dumps), len(base.Dumps))
					} else {
						for i := range r.Dumps {
							if d := firstDiff(r.Dumps[i], base.Dumps[i]); d != "" {
								bad(t.Call+"/schedule-dependent-result/"+pc, "file #%d differs between plans: %s", i+1, d)
								break
							}
						}
					}
				} else if d := firstDiff(r.Dump, base.Dump); d != "" {
					bad(t.Call+"/schedule-dependent-result/"+pc, "%s result differs between plan %s and the plain plan: %s", t.Call, pc, d)
				}
			}
		}
	}
	st.ProbeIf(strings.Contains(layout, "valid-file-tail"), "tail: valid file behind frame")
	// header / file_id agreement
	dec := byID[0]
	if dec != nil && dec.ErrClass == "nil" {
		if dh := byID[6]; dh != nil && dh.ErrClass == "nil" {
			if findLine(dh.Dump, "Header=") != findLine(dec.Dump, "Header=") {
				bad("DecodeHeader/header-differs-from-Decode", "DecodeHeader %s vs Decode %s", findLine(dh.Dump, "Header="), findLine(dec.Dump, "Header="))
			}
		}
		if dh := byID[8]; dh != nil && dh.ErrClass == "nil" {
			if findLine(dh.Dump, "Header=") != findLine(dec.Dump, "Header=") {
				bad("DecodeHeaderAndFileID/header-differs-from-Decode", "%s vs %s", findLine(dh.Dump, "Header="), findLine(dec.Dump, "Header="))
			}
			if findLine(dh.Dump, "FileId=") != findLine(dec.Dump, "FileId=") {
				bad("DecodeHeaderAndFileID/fileid-differs-from-Decode", "%s vs %s", findLine(dh.Dump, "FileId="), findLine(dec.Dump, "FileId="))
			}
		}
	}
	// file-by-file calls on one reader
	for ti := len(c10Calls)*2 + nfr; ti < len(sc.Tasks); ti++ {
		t := &sc.Tasks[ti]
		r := byID[t.ID]
		if r == nil || t.Seq < 2 {
			continue
		}
		pc := planClass(t.Read)
		st.Probe("one call per file on the same reader")
		st.Key(t.Call, "per-file-calls", pc, "")
		if r.Panic != "" {
			bad(t.Call+"/panic", "%s panicked (call %d on the same reader): %s", t.Call, len(r.SeqPos)+1, r.Panic)
			continue
		}
		for i, pos := range r.SeqPos {
			if i >= nfr {
				break
			}
			last := i == len(r.SeqPos)-1
			if last && r.ErrClass != "nil" {
				bad(t.Call+"/per-file-calls/rejects-valid/"+pc, "call %d of %d on the same reader (file starts at offset %d): %s failed on a valid frame: %s", i+1, nfr, frames[i].Start, t.Call, r.Err)
				break
			}
			if pos != frames[i].End {
				bad(t.Call+"/per-file-calls/position/"+pc, "after call %d of %d on the same reader %s has consumed %d bytes, file %d ends at %d", i+1, nfr, t.Call, pos, i+1, frames[i].End)
				break
			}
			if t.Call == "Decode" && i < len(r.Dumps) {
				alone := byID[len(c10Calls)*2+i]
				if alone != nil && alone.ErrClass == "nil" {
					if d := firstDiff(r.Dumps[i], alone.Dump); d != "" {
						bad("Decode/per-file-calls/file-differs-from-alone/"+pc, "file #%d decoded by the %d-th call on one reader differs from decoding it alone: %s", i+1, i+1, d)
						break
					}
				}
			}
		}
	}
	if nontrivial {
		st.Nontrivial++
	}
	return vs
}
