package main

import (
	"errors"
	"fmt"
	"io"
)

// ErrSimIO is the injected non-EOF reader fault.
var ErrSimIO = errors.New("simio: injected I/O error")

// stepBudgetExceeded is the private sentinel a SimReader panics with when an
// entry point keeps calling Read beyond the bounded-liveness budget.
type stepBudgetExceeded struct{ calls, budget int }

func (s stepBudgetExceeded) String() string {
	return fmt.Sprintf("step budget exceeded: %d Read calls, budget %d", s.calls, s.budget)
}

// FaultAt places a cut or a failure at an absolute stream offset.
type FaultAt struct {
	At       int  `json:"at"`
	WithData bool `json:"with_data,omitempty"`
	// Err selects the error a failing reader returns: "" = ErrSimIO,
	// "unexpected_eof" = io.ErrUnexpectedEOF (what a reader over a truncated
	// compressed or framed transport reports: not a clean end of input)
	Err string `json:"err,omitempty"`
}

func (f *FaultAt) error() error {
	if f != nil && f.Err == "unexpected_eof" {
		return io.ErrUnexpectedEOF
	}
	return ErrSimIO
}

// ReadPlan is the complete, explicit read schedule of one task. Executing it
// draws nothing: entry k of Chunks bounds what the k-th Read returns (0 is a
// (0,nil) stutter); after the list the Tail policy applies ("full", "one" or
// "k<N>" for at most N bytes per call).
type ReadPlan struct {
	Chunks      []int    `json:"chunks,omitempty"`
	Tail        string   `json:"tail,omitempty"`
	EOFWithData bool     `json:"eof_with_data,omitempty"`
	Cut         *FaultAt `json:"cut,omitempty"`
	Fail        *FaultAt `json:"fail,omitempty"`
	// Native replaces the simulated reader by a standard-library one over the
	// same bytes: "bytes" = *bytes.Reader (also an io.Seeker, io.ByteReader,
	// io.WriterTo, io.ReaderAt with Len/Size), "bufio" = *bufio.Reader of a
	// small size over one. Chunking is then the library type's own; a cut is
	// the end of the slice. Ignored under the conc engine and with Fail.
	Native string `json:"native,omitempty"`
}

// Yielder is the scheduler seam: every simulated I/O call first yields.
type Yielder interface{ Yield(task int) }

type readEvent struct {
	Off, Want, N int
	Err          string
}

// SimReader serves a medium under a ReadPlan and records what happened.
type SimReader struct {
	m     []byte
	plan  ReadPlan
	end   int // first offset not served (cut or len)
	pos   int
	calls int
	k     int  // index into plan.Chunks
	tailN int  // 0 = full
	tailZ bool // tail policy "zk<N>": every data read is preceded by one (0,nil)
	zNext bool

	budget int
	sched  Yielder
	task   int

	// observations
	hash       uint64
	maxWantEnd int // max over calls of pos+len(p): what the callee asked for
	cutFired   bool
	failFired  bool
	failData   bool
	eofData    bool
	stutters   int
	shortReads int
	straddles  int
	first      []readEvent
}

func parseTail(t string) int {
	switch t {
	case "", "full":
		return 0
	case "one":
		return 1
	}
	if len(t) > 1 && t[0] == 'k' {
		n := 0
		for _, c := range t[1:] {
			if c < '0' || c > '9' {
				return 0
			}
			n = n*10 + int(c-'0')
		}
		return n
	}
	return 0
}

func NewSimReader(m []byte, plan ReadPlan, sched Yielder, task int) *SimReader {
	r := &SimReader{m: m, plan: plan, end: len(m), sched: sched, task: task}
	if plan.Cut != nil && plan.Cut.At < r.end {
		r.end = plan.Cut.At
		if r.end < 0 {
			r.end = 0
		}
	}
	r.tailN = parseTail(plan.Tail)
	if len(plan.Tail) > 1 && plan.Tail[0] == 'z' {
		r.tailZ = true
		r.tailN = parseTail(plan.Tail[1:])
		r.zNext = true
	}
	nst := 0
	for _, c := range plan.Chunks {
		if c == 0 {
			nst++
		}
	}
	r.budget = 4*len(m) + 64 + nst
	if r.tailZ {
		r.budget += 2*len(m) + 64 // one stutter per delivered chunk at most
	}
	r.hash = 0xcbf29ce484222325
	return r
}

func (r *SimReader) mix(vals ...int) {
	for _, v := range vals {
		r.hash ^= uint64(uint32(v))
		r.hash *= 0x100000001b3
	}
}

func (r *SimReader) Read(p []byte) (int, error) {
	if r.sched != nil {
		r.sched.Yield(r.task)
	}
	r.calls++
	if r.calls > r.budget {
		panic(stepBudgetExceeded{r.calls, r.budget})
	}
	n, err := r.read(p)
	code := 0
	switch err {
	case nil:
	case io.EOF:
		code = 1
	default:
		code = 2
	}
	r.mix(r.pos-n, len(p), n, code)
	if len(r.first) < 12 {
		es := ""
		if err != nil {
			es = err.Error()
		}
		r.first = append(r.first, readEvent{r.pos - n, len(p), n, es})
	}
	return n, err
}

func (r *SimReader) read(p []byte) (int, error) {
	if len(p) == 0 {
		return 0, nil
	}
	if r.pos+len(p) > r.maxWantEnd {
		r.maxWantEnd = r.pos + len(p)
	}
	if r.plan.Fail != nil && r.pos >= r.plan.Fail.At {
		r.failFired = true
		return 0, r.plan.Fail.error()
	}
	if r.pos >= r.end {
		if r.plan.Cut != nil {
			r.cutFired = true
		}
		return 0, io.EOF
	}
	lim := r.end
	if r.plan.Fail != nil && r.plan.Fail.At < lim {
		lim = r.plan.Fail.At
	}
	k := len(p)
	if r.k < len(r.plan.Chunks) {
		c := r.plan.Chunks[r.k]
		r.k++
		if c == 0 {
			r.stutters++
			return 0, nil
		}
		if c < k {
			k = c
		}
	} else {
		if r.tailZ {
			if r.zNext {
				r.zNext = false
				r.stutters++
				return 0, nil
			}
			r.zNext = true
		}
		if r.tailN > 0 && r.tailN < k {
			k = r.tailN
		}
	}
	if k > lim-r.pos {
		k = lim - r.pos
	}
	if k < len(p) {
		r.shortReads++
	}
	copy(p, r.m[r.pos:r.pos+k])
	r.pos += k
	if r.plan.Fail != nil && r.pos == r.plan.Fail.At && r.plan.Fail.WithData && k > 0 {
		r.failFired = true
		r.failData = true
		return k, r.plan.Fail.error()
	}
	if r.pos == r.end && k > 0 {
		if r.plan.Cut != nil && r.plan.Cut.At <= len(r.m) && r.plan.Cut.WithData && r.end == r.plan.Cut.At {
			r.cutFired = true
			r.eofData = true
			return k, io.EOF
		}
		if r.plan.EOFWithData && r.end == len(r.m) {
			r.eofData = true
			return k, io.EOF
		}
	}
	return k, nil
}

// SimWriter records everything written.
type SimWriter struct {
	buf    []byte
	sizes  []int
	sched  Yielder
	task   int
	failAt int // 1-based Write call that fails (0 = never); the fault is sticky
}

func (w *SimWriter) Write(p []byte) (int, error) {
	if w.sched != nil {
		w.sched.Yield(w.task)
	}
	if w.failAt > 0 && len(w.sizes)+1 >= w.failAt {
		w.sizes = append(w.sizes, 0)
		return 0, ErrSimIO
	}
	w.buf = append(w.buf, p...)
	w.sizes = append(w.sizes, len(p))
	return len(p), nil
}

// SimLogger implements fit.Logger; it formats (so String methods run) and
// records a hash and a count, and is a yield point.
type SimLogger struct {
	lines int
	hash  uint64
	sched Yielder
	task  int
}

func (l *SimLogger) add(s string) {
	if l.sched != nil {
		l.sched.Yield(l.task)
	}
	l.lines++
	l.hash = l.hash*0x100000001b3 ^ hashStr(s)
}
func (l *SimLogger) Print(args ...interface{})            { l.add(fmt.Sprint(args...)) }
func (l *SimLogger) Printf(f string, args ...interface{}) { l.add(fmt.Sprintf(f, args...)) }
func (l *SimLogger) Println(args ...interface{})          { l.add(fmt.Sprintln(args...)) }
