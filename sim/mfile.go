package main

import (
	"bytes"
	"encoding/binary"
	"encoding/hex"
	"fmt"
	"math"
	"reflect"
	"strconv"
	"strings"
	"time"
	_ "time/tzdata"

	"github.com/tormoder/fit"
)

// ModelFile is a JSON-serialisable description of a *fit.File that is built
// through the public API only (NewHeader, NewFile, accessors, New<X>Msg
// constructors via the hook, exported fields). Field values are canonical
// value strings (canon.go), keyed by struct field index.

type MMsg struct {
	Global uint16         `json:"g"`
	Fields map[int]string `json:"f,omitempty"`
}

type ModelFile struct {
	Type      byte           `json:"type"`
	HdrCRC    bool           `json:"hdr_crc,omitempty"`
	Proto     byte           `json:"proto"`
	StaleSize uint32         `json:"stale_size,omitempty"`
	StaleHCRC uint16         `json:"stale_hcrc,omitempty"`
	StaleCRC  uint16         `json:"stale_crc,omitempty"`
	FileId    map[int]string `json:"file_id,omitempty"` // fields other than Type
	Msgs      []MMsg         `json:"msgs,omitempty"`
}

// parseCanon stores the canonical value s into v (settable).
func parseCanon(v reflect.Value, s string) error {
	if s == "" {
		return fmt.Errorf("empty canonical value")
	}
	switch v.Kind() {
	case reflect.Uint8, reflect.Uint16, reflect.Uint32, reflect.Uint64:
		if s[0] != 'u' {
			return fmt.Errorf("want u, got %q", s)
		}
		x, err := strconv.ParseUint(s[1:], 10, 64)
		if err != nil {
			return err
		}
		v.SetUint(x)
	case reflect.Int8, reflect.Int16, reflect.Int32, reflect.Int64:
		if s[0] != 'i' {
			return fmt.Errorf("want i, got %q", s)
		}
		x, err := strconv.ParseInt(s[1:], 10, 64)
		if err != nil {
			return err
		}
		v.SetInt(x)
	case reflect.Float32, reflect.Float64:
		x, err := strconv.ParseUint(s[1:], 16, 64)
		if err != nil {
			return err
		}
		v.SetFloat(math.Float64frombits(x))
	case reflect.String:
		x, err := strconv.Unquote(s[1:])
		if err != nil {
			return err
		}
		v.SetString(x)
	case reflect.Slice:
		if s == "nil" {
			v.Set(reflect.Zero(v.Type()))
			return nil
		}
		if s[0] == 'b' {
			b, err := hex.DecodeString(s[1:])
			if err != nil {
				return err
			}
			v.SetBytes(b)
			return nil
		}
		parts := splitStructFields("{" + s[1:len(s)-1] + "}")
		if s == "[]" {
			parts = nil
		}
		sl := reflect.MakeSlice(v.Type(), len(parts), len(parts))
		for i, p := range parts {
			if err := parseCanon(sl.Index(i), p); err != nil {
				return err
			}
		}
		v.Set(sl)
	case reflect.Struct:
		switch v.Type() {
		case timeType:
			body := s[1:]
			i := strings.LastIndexByte(body, '+')
			unix, err := strconv.ParseInt(body[:i], 10, 64)
			if err != nil {
				return err
			}
			dst := strings.HasSuffix(body, "D")
			off, err := strconv.Atoi(strings.TrimSuffix(body[i+1:], "D"))
			if err != nil {
				return err
			}
			t := time.Unix(unix, 0).UTC()
			if dst {
				// the same instant and offset, carried by a tz-database location with
				// daylight saving time (what time.Local is on a user's machine)
				t = t.In(dstZone())
				if _, o := t.Zone(); o != off {
					return fmt.Errorf("canonical time %s: zone %s has offset %d at that instant", s, dstZoneName, o)
				}
			} else if off != 0 || strings.HasSuffix(s, "+0L") {
				t = t.In(time.FixedZone("SIMLOCAL", off))
			}
			v.Set(reflect.ValueOf(t))
		case latType:
			x, err := strconv.Atoi(s[2:])
			if err != nil {
				return err
			}
			v.Set(reflect.ValueOf(fit.NewLatitude(int32(x))))
		case lngType:
			x, err := strconv.Atoi(s[2:])
			if err != nil {
				return err
			}
			v.Set(reflect.ValueOf(fit.NewLongitude(int32(x))))
		default:
			return fmt.Errorf("cannot set struct %v", v.Type())
		}
	default:
		return fmt.Errorf("cannot set kind %v", v.Kind())
	}
	return nil
}

// buildModelFile constructs the *fit.File through the public API.
func buildModelFile(mf *ModelFile) (*fit.File, error) {
	h := fit.NewHeader(fit.ProtocolVersion(mf.Proto), mf.HdrCRC)
	h.DataSize = mf.StaleSize
	h.CRC = mf.StaleHCRC
	f, err := fit.NewFile(fit.FileType(mf.Type), h)
	if err != nil {
		return nil, err
	}
	f.CRC = mf.StaleCRC
	idv := reflect.ValueOf(&f.FileId).Elem()
	// Start from the all-invalid file_id, as any user of the API would.
	if nm, ok := fit.VerifNewMesg(0); ok {
		idv.Set(nm.Elem())
		f.FileId.Type = fit.FileType(mf.Type)
	}
	for si, cv := range mf.FileId {
		if si == 0 || si >= idv.NumField() {
			continue
		}
		if err := parseCanon(idv.Field(si), cv); err != nil {
			return nil, fmt.Errorf("file_id field %d: %v", si, err)
		}
	}
	cont := containerOf(f)
	fv := reflect.ValueOf(f).Elem()
	for mi, m := range mf.Msgs {
		pv, ok := fit.VerifNewMesg(m.Global)
		if !ok {
			return nil, fmt.Errorf("msg %d: no constructor for message %d", mi, m.Global)
		}
		ev := pv.Elem()
		for si, cv := range m.Fields {
			if si < 0 || si >= ev.NumField() {
				return nil, fmt.Errorf("msg %d: field index %d out of range", mi, si)
			}
			if err := parseCanon(ev.Field(si), cv); err != nil {
				return nil, fmt.Errorf("msg %d field %d: %v", mi, si, err)
			}
		}
		placed := false
		// common messages on File
		for _, name := range []string{"FileCreator", "TimestampCorrelation"} {
			fld := fv.FieldByName(name)
			if fld.IsValid() && fld.Type() == pv.Type() {
				fld.Set(pv)
				placed = true
			}
		}
		if !placed && cont.IsValid() {
			cv := cont.Elem()
			for i := 0; i < cv.NumField() && !placed; i++ {
				fld := cv.Field(i)
				switch {
				case fld.Kind() == reflect.Slice && fld.Type().Elem() == pv.Type():
					fld.Set(reflect.Append(fld, pv))
					placed = true
				case fld.Kind() == reflect.Ptr && fld.Type() == pv.Type():
					fld.Set(pv)
					placed = true
				}
			}
		}
		if !placed {
			return nil, fmt.Errorf("msg %d (%s) is not hosted by file type %d", mi, pv.Elem().Type().Name(), mf.Type)
		}
	}
	return f, nil
}

func archOf(a string) binary.ByteOrder {
	if a == "be" {
		return binary.BigEndian
	}
	return binary.LittleEndian
}

// encodeModelFile is used to materialise "encode" media: bytes produced by
// the real Encode. A failure here is an infrastructure-level surprise for the
// families that use it (they only use in-domain Files) and is surfaced as an
// empty medium, which every consumer then reports.
func encodeModelFile(mf *ModelFile, arch string) []byte {
	return encodeModelFileInto(mf, arch, 0)
}

// sinkPrefix is what a prefilled sink holds before Encode appends to it.
func sinkPrefix(n int) []byte {
	b := make([]byte, n)
	for i := range b {
		b[i] = 0xA5 ^ byte(i*7)
	}
	return b
}

// encodeModelFileInto encodes into a *bytes.Buffer that already holds prefix
// bytes (a caller appending a file to what it wrote before) and returns what
// Encode appended. If the earlier bytes were touched, the whole buffer is
// returned: the caller's stream is then damaged and no oracle accepts it.
func encodeModelFileInto(mf *ModelFile, arch string, prefix int) []byte {
	f, err := buildModelFile(mf)
	if err != nil {
		return nil
	}
	var buf bytes.Buffer
	pre := sinkPrefix(prefix)
	buf.Write(pre)
	defer func() { recover() }()
	if err := fit.Encode(&buf, f, archOf(arch)); err != nil {
		return nil
	}
	out := buf.Bytes()
	if len(out) < prefix || !bytes.Equal(out[:prefix], pre) {
		return out
	}
	return out[prefix:]
}

// dstZone: a location whose offset depends on the instant (embedded tz database,
// so the check does not depend on the machine's zoneinfo files).
const dstZoneName = "Europe/Berlin"

// loaded once at program start (tasks of the conc engine build Files concurrently;
// nothing of the harness may be initialised lazily inside a task)
var dstLoc = mustLoadDSTZone()

func mustLoadDSTZone() *time.Location {
	l, err := time.LoadLocation(dstZoneName)
	if err != nil {
		panic("embedded tz database: " + err.Error())
	}
	return l
}

func dstZone() *time.Location { return dstLoc }
