package main

import (
	"encoding/json"
	"os"
	"path/filepath"
	"sort"
)

var componentsReal = []string{
	"package fit (decoder, encoder, headers, generated profile/messages, routing, component expansion)",
	"fit/dyncrc16", "fit/internal/types", "reflect", "encoding/binary",
}
var componentsSim = []string{
	"io.Reader (SimReader: chunk schedule, cut, fail, stutter)", "io.Writer (SimWriter)", "fit.Logger (SimLogger)",
	"storage medium (in-memory bytes with at-rest bit flips)", "choice of running goroutine (engine conc)",
	"process restart (fresh OS process baselines, engines hist/conc)",
}

func writeEvidence(p Prop, tier string, seed uint64, seeds []uint64, st *Stats, wall float64, nviol int, known map[string]int, det string, scen int) {
	st.seal()
	var stuck []string
	for _, n := range p.ProbeNames() {
		if st.Probes[n] == 0 {
			stuck = append(stuck, n)
		}
	}
	sort.Strings(stuck)
	samples := make([]interface{}, 0, 3)
	for _, s := range st.Samples {
		var v interface{}
		if json.Unmarshal(s, &v) == nil {
			samples = append(samples, v)
		}
		if len(samples) == 3 {
			break
		}
	}
	if len(samples) == 0 {
		samples = append(samples, "no sample small enough to embed; see ./check gen")
	}
	perHour := 0.0
	if wall > 0 {
		perHour = float64(st.Evaluations) / wall * 3600
	}
	cov := map[string]interface{}{
		"evaluations":            st.Evaluations,
		"scenarios":              st.Scenarios,
		"distinct_nontrivial":    len(st.Keys),
		"nontrivial_scenarios":   st.Nontrivial,
		"rule":                   p.Rule(),
		"samples":                samples,
		"runs_per_hour":          int64(perHour),
		"seeds":                  seeds,
		"seam_events":            st.SeamEvents,
		"seam_events_note":       "the library has no clock; simulated time is replaced by the count of seam events (Read/Write/Log calls and context switches)",
		"fault_counts":           st.Faults,
		"probes":                 st.Probes,
		"probes_stuck":           stuck,
		"fields_reached":         len(st.Fields),
		"fields_total":           len(prof.Fields),
		"distinct_interleavings": len(st.Sched),
		"components_real":        componentsReal,
		"components_simulated":   componentsSim,
		"components_not_run":     []string{"cmd/fitgen", "fitstringer", "timeutil"},
		"determinism_recheck":    det,
		"known_findings_met":     known,
		"profile_table":          profNote,
		"engine":                 p.Engine(),
		"exhaustive":             false,
	}
	ev := map[string]interface{}{
		"property_id": p.ID(),
		"tier":        tier,
		"seed":        seed,
		"level":       p.Level(),
		"coverage":    cov,
		"assumptions": p.Assumptions(),
		"wall_s":      wall,
		"violations":  nviol,
	}
	b, _ := json.MarshalIndent(ev, "", " ")
	path := filepath.Join(outRoot(), "evidence", p.ID()+".json")
	if err := os.WriteFile(path, b, 0o644); err != nil {
		fatalInfra("write evidence: %v", err)
	}
}
