package main

import (
	"encoding/hex"
	"fmt"
	"math"
	"strconv"
	"strings"
)

// Decode model: interprets record operations per the FIT protocol description
// and the profile snapshot. Independent of reader.go.

type ModelMsg struct {
	Global   uint16
	Op       int            // index of the data op
	Fields   map[int]string // sindex -> expected canonical value (fields present on the wire or set by rule)
	DontCare map[int]bool   // sindex -> value deliberately not checked (DESIGN 2.5 don't-cares)
	Comp     bool
	FD       map[int][3]int // sindex -> definition triple that carried the field
	BE       bool
	Raw      map[int][]byte // sindex -> payload bytes as transmitted
}

type ufKey struct {
	M uint16
	F byte
}

type ModelOut struct {
	Msgs        []ModelMsg // every data record of a KNOWN message, stream order (file_id included)
	ErrOp       int        // index of the op at which decoding must fail (-1 = none)
	ErrWhy      string
	UnknownMsgs map[uint16]int // per unknown global number: data records
	UnknownFlds map[ufKey]int  // per (known message, unlisted field): data records carrying it
	// progress counters at each op end (for partial-failure accounting)
	DataOps int
}

type timeModel struct {
	ref    uint32
	refSet bool
	chaos  bool // reference unknown to the model (don't-care 4)
}

// invalidCanon is the value an absent field must hold.
func invalidCanon(pf *PField) string {
	switch pf.Kind {
	case kindUTC, kindLocal:
		return canonTimeVal(fitEpochUnix, 0)
	case kindLat, kindLng:
		return "ll2147483647"
	}
	if pf.Array {
		return "nil"
	}
	bi := baseOf(pf.Base)
	switch {
	case bi.String:
		return `s""`
	case bi.Float:
		if bi.Size == 4 {
			return "f" + strconv.FormatUint(math.Float64bits(float64(math.Float32frombits(0xFFFFFFFF))), 16)
		}
		return "f" + strconv.FormatUint(0xFFFFFFFFFFFFFFFF, 16)
	case bi.Signed:
		return "i" + strconv.FormatInt(signExtend(bi.Invalid, bi.Size), 10)
	default:
		return "u" + strconv.FormatUint(bi.Invalid, 10)
	}
}

func signExtend(v uint64, size int) int64 {
	shift := uint(64 - 8*size)
	return int64(v<<shift) >> shift
}

func byteSliceGo(pf *PField) bool { return pf.GoType == "[]uint8" || pf.GoType == "[]byte" }

// scalarCanon renders one element of definition base type d read from b.
func scalarCanon(d *BaseInfo, b []byte, be bool) string {
	raw := getN(b[:d.Size], be)
	switch {
	case d.Float && d.Size == 4:
		return "f" + strconv.FormatUint(math.Float64bits(float64(math.Float32frombits(uint32(raw)))), 16)
	case d.Float:
		return "f" + strconv.FormatUint(raw, 16)
	case d.Signed:
		return "i" + strconv.FormatInt(signExtend(raw, d.Size), 10)
	default:
		return "u" + strconv.FormatUint(raw, 10)
	}
}

// compatible reports whether a definition (base type, size) for profile field
// pf is one the statement of C02 calls compatible AND unambiguous, i.e. one
// whose denotation this model defines. Everything else is only used by C01.
func compatibleDef(pf *PField, dbase byte, size int) bool {
	d := baseOf(dbase)
	p := baseOf(pf.Base)
	if d == nil || p == nil {
		return false
	}
	if p.String {
		return d.String && size >= 1
	}
	if d.String {
		return false
	}
	if pf.Array {
		return dbase == pf.Base && size >= d.Size && size%d.Size == 0
	}
	if pf.Kind != kindNative {
		// time and coordinates: full width, or (time only) narrower unsigned
		if size != d.Size {
			return false
		}
		if pf.Kind == kindUTC || pf.Kind == kindLocal {
			return !d.Signed && d.Integer && d.Size <= 4
		}
		return dbase == pf.Base
	}
	if size != d.Size || d.Float || p.Float {
		return false
	}
	if d.Size > p.Size || d.Signed != p.Signed {
		return false
	}
	return true
}

// interpField gives the expected canonical value of a field whose payload is b
// under (definition base, size, byte order). ok=false: not in the checked domain.
func interpField(pf *PField, dbase byte, b []byte, be bool, tm *timeModel) (val string, care bool) {
	d := baseOf(dbase)
	size := len(b)
	if !compatibleDef(pf, dbase, size) {
		return "", false
	}
	p := baseOf(pf.Base)
	switch pf.Kind {
	case kindUTC:
		v := uint32(getN(b, be))
		if size == 4 && v == 0xFFFFFFFF {
			return invalidCanon(pf), true
		}
		if size < 4 && uint64(v) == d.Invalid {
			return "", false // don't-care 2
		}
		if pf.Num == 253 {
			// every explicit timestamp re-bases the reference; 0 is "no reference".
			// (A reference below the system-time marker only matters for local
			// timestamps, which then count as "without reference".)
			tm.ref = v
			tm.refSet = v != 0
			tm.chaos = false
		}
		return canonTimeVal(fitEpochUnix+int64(v), 0), true
	case kindLocal:
		v := uint32(getN(b, be))
		if size == 4 && v == 0xFFFFFFFF {
			return invalidCanon(pf), true
		}
		if size < 4 && uint64(v) == d.Invalid {
			return "", false // don't-care 2
		}
		if tm.chaos {
			return "w" + strconv.FormatInt(fitEpochUnix+int64(v), 10), true
		}
		if !tm.refSet || tm.ref < 0x10000000 {
			// no usable reference: offset 0; from here on the reference is unknown to the model
			tm.chaos = true
			return canonTimeVal(fitEpochUnix+int64(v), 0), true
		}
		return canonTimeVal(fitEpochUnix+int64(tm.ref), int(int64(v)-int64(tm.ref))), true
	case kindLat:
		v := int32(uint32(getN(b, be)))
		if v == 0x7FFFFFFF || v < -(1<<30) || v > (1<<30) {
			return "ll2147483647", true
		}
		if v == 1<<30 {
			return "", false // don't-care 3
		}
		return "ll" + strconv.Itoa(int(v)), true
	case kindLng:
		v := int32(uint32(getN(b, be)))
		return "ll" + strconv.Itoa(int(v)), true
	}
	if p.String {
		if pf.Array {
			// s1 NUL s2 NUL ... [NUL padding] or last unterminated
			var parts []string
			j := 0
			for j < size {
				k := j
				for k < size && b[k] != 0 {
					k++
				}
				if k == j {
					// empty element: padding starts; anything non-NUL after it is outside the domain
					for _, x := range b[j:] {
						if x != 0 {
							return "", false
						}
					}
					break
				}
				parts = append(parts, "s"+strconv.Quote(string(b[j:k])))
				j = k + 1
			}
			if len(parts) == 0 {
				return "nil", true
			}
			return "[" + strings.Join(parts, " ") + "]", true
		}
		k := 0
		for k < size && b[k] != 0 {
			k++
		}
		return "s" + strconv.Quote(string(b[:k])), true
	}
	if pf.Array {
		if byteSliceGo(pf) {
			return "b" + hex.EncodeToString(b), true
		}
		n := size / d.Size
		parts := make([]string, n)
		for i := 0; i < n; i++ {
			parts[i] = scalarCanon(d, b[i*d.Size:], be)
		}
		return "[" + strings.Join(parts, " ") + "]", true
	}
	// scalar, possibly narrowed / sibling type
	raw := getN(b, be)
	if d.Size < p.Size && raw == d.Invalid {
		return "", false // don't-care 2: narrow type's invalid pattern in a narrowed field
	}
	if d.Signed {
		return "i" + strconv.FormatInt(signExtend(raw, d.Size), 10), true
	}
	return "u" + strconv.FormatUint(raw, 10), true
}

// interpret runs the decode model over record operations.
func interpret(ops []Op) *ModelOut {
	out := &ModelOut{ErrOp: -1, UnknownMsgs: map[uint16]int{}, UnknownFlds: map[ufKey]int{}}
	var defs [16]*DefOp
	tm := &timeModel{}
	for i := range ops {
		op := &ops[i]
		switch {
		case op.Def != nil:
			d := *op.Def
			defs[d.Local&15] = &d
		case op.Data != nil:
			local := op.Data.Local & 15
			if op.Data.Comp {
				local = op.Data.Local & 3
			}
			def := defs[local]
			if def == nil {
				out.ErrOp, out.ErrWhy = i, fmt.Sprintf("data record for undefined local type %d", local)
				return out
			}
			payload := unhex(op.Data.Bytes)
			known := prof.Known(def.Global)
			// A compressed-timestamp header advances the reference whatever the message is.
			var compTS string
			compDontCare := false
			if op.Data.Comp {
				switch {
				case tm.chaos || !tm.refSet || tm.ref == 0:
					// (a reference that wrapped to exactly 0 is indistinguishable from "none")
					compDontCare = true
					if tm.refSet || tm.chaos {
						tm.chaos = true
					}
				default:
					off := uint32(op.Data.Off & 31)
					nref := tm.ref&^31 + off
					if off < tm.ref&31 {
						nref += 32
					}
					tm.ref = nref
					compTS = canonTimeVal(fitEpochUnix+int64(nref), 0)
				}
			}
			if !known {
				out.UnknownMsgs[def.Global]++
				out.DataOps++
				continue
			}
			mm := ModelMsg{Global: def.Global, Op: i, Fields: map[int]string{}, DontCare: map[int]bool{}, Comp: op.Data.Comp, FD: map[int][3]int{}, BE: def.be(), Raw: map[int][]byte{}}
			if op.Data.Comp {
				if tsf := prof.Field(def.Global, 253); tsf != nil && tsf.Kind == kindUTC {
					if compDontCare {
						mm.DontCare[tsf.SIndex] = true
					} else {
						mm.Fields[tsf.SIndex] = compTS
					}
				}
			}
			p := 0
			seenUF := map[byte]bool{}
			for _, fd := range def.Fields {
				size := fd[1]
				if p+size > len(payload) {
					break
				}
				b := payload[p : p+size]
				p += size
				pf := prof.Field(def.Global, byte(fd[0]))
				if pf == nil {
					if !seenUF[byte(fd[0])] {
						seenUF[byte(fd[0])] = true
						out.UnknownFlds[ufKey{def.Global, byte(fd[0])}]++
					}
					continue
				}
				mm.FD[pf.SIndex] = fd
				mm.Raw[pf.SIndex] = b
				v, care := interpField(pf, byte(fd[2]), b, def.be(), tm)
				if !care {
					mm.DontCare[pf.SIndex] = true
					delete(mm.Fields, pf.SIndex)
					continue
				}
				// only the 0xFFFFFFFF sentinel "leaves the field untouched"; a transmitted 0 is a
				// value (the base time) and overwrites whatever a compressed header put there
				sentinel := (pf.Kind == kindUTC || pf.Kind == kindLocal) && len(b) == 4 && getN(b, def.be()) == 0xFFFFFFFF
				if sentinel && mm.DontCare[pf.SIndex] {
					// invalid time leaves the field untouched: it keeps the (unchecked)
					// value the compressed header gave it
					continue
				}
				delete(mm.DontCare, pf.SIndex)
				if pf.Kind == kindNative && !pf.Array && baseOf(pf.Base).String && v == `s""` {
					// empty string leaves the field as it was (invalid = "")
					mm.Fields[pf.SIndex] = v
					continue
				}
				if sentinel {
					// invalid time leaves the field untouched: a compressed-header timestamp stays
					if _, had := mm.Fields[pf.SIndex]; had {
						continue
					}
				}
				mm.Fields[pf.SIndex] = v
			}
			out.Msgs = append(out.Msgs, mm)
			out.DataOps++
		}
	}
	return out
}
