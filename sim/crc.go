package main

// Independent bitwise CRC-16/ARC (reflected, poly 0xA001, init 0, no xorout).
// Deliberately not table driven and not sharing code with dyncrc16.

func crc16Update(crc uint16, b byte) uint16 {
	crc ^= uint16(b)
	for i := 0; i < 8; i++ {
		if crc&1 == 1 {
			crc = (crc >> 1) ^ 0xA001
		} else {
			crc >>= 1
		}
	}
	return crc
}

func crc16(data []byte) uint16 {
	var c uint16
	for _, b := range data {
		c = crc16Update(c, b)
	}
	return c
}
