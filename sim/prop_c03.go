package main

import (
	"fmt"
	"strings"

	"github.com/tormoder/fit"
)

// C03 - messages are routed, in order, to the typed container of the file's
// type; accessors and file-type acceptance.

type propC03 struct {
	seed  uint64
	tier  string
	per   int
	count int
}

func init() { register(&propC03{}) }

func (p *propC03) ID() string     { return "C03" }
func (p *propC03) Engine() string { return "rx" }
func (p *propC03) Level() string  { return "exploration" }
func (p *propC03) Rule() string {
	return "for each of the 256 file-type values: file_id(type=t) followed by 1-60 data messages drawn from all known message types (biased to the ones t holds) plus unknown ones, each carrying a sequence number in a small numeric field, in a seeded interleaving over the 16 local types; a quarter of the scenarios repeat file_id mid-stream (same type, or a different one); decoded through a seeded read plan, plus NewFile(t). " +
		"key = (file type, container field, slot kind, messages of >= 2 hosted kinds interleaved?); non-trivial when >= 2 different hosted types were interleaved"
}
func (p *propC03) Assumptions() []string {
	return []string{
		"routing model = reflection over the public container struct types (element type T -> exported field), not the add switches",
		"supported file types and their accessor names are taken from the FIT profile's file enum (17 values), not from package constants",
		"a later file_id with a different type: the statement does not say whether that is an error; the oracle is what both readings share (Decode returns an error, or the accessor matching File.Type() returns a container holding the routed messages)",
	}
}
func (p *propC03) ProbeNames() []string {
	return []string{"unheld type between held ones", "repeated file_id same type", "repeated file_id other type", "repeated file_id without type field", "pointer slot overwritten", "unsupported type rejected", "all accessors checked", "slice longer than 512", "slice longer than 2048"}
}

func (p *propC03) Prepare(seed uint64, tier string) int {
	p.seed, p.tier = seed, tier
	p.per = 2000
	if isThorough(tier) {
		p.per = 40000
	}
	p.count = 256 * p.per
	return p.count
}

// seqField picks the field that carries the sequence number for a message.
func seqField(g uint16) *PField {
	var small *PField
	for _, pf := range prof.byMesg[g] {
		if pf.Kind != kindNative || pf.Array {
			continue
		}
		b := baseOf(pf.Base)
		if !b.Integer || b.Signed || pf.Base == 0x00 {
			continue
		}
		if g == 0 && pf.Num == 0 {
			continue
		}
		if b.Size >= 2 {
			return pf
		}
		if small == nil {
			small = pf
		}
	}
	if small == nil {
		// no unsigned integer field: an enum carries the sequence number
		for _, pf := range prof.byMesg[g] {
			if pf.Kind == kindNative && !pf.Array && pf.Base == 0x00 && !(g == 0 && pf.Num == 0) {
				return pf
			}
		}
	}
	return small
}

func (p *propC03) Gen(idx int) *Scenario {
	r := NewRng(p.seed, "C03", idx)
	t := byte(idx % 256)
	g := &streamGen{r: r, o: StreamOpts{FT: t, Arch: 2}}
	// file_id
	fl := byte(r.Intn(16))
	g.emitDef(&DefOp{Local: fl, Arch: g.arch(), Global: 0, Fields: [][3]int{{0, 1, 0}}})
	g.emitData(fl, false, 0, []byte{t})
	var hosted []uint16
	if isSupportedFileType(t) {
		hosted = hostedMesgNums(t)
	}
	repeat := r.Chance(1, 4)
	rich := r.Chance(1, 3)
	n := r.Range(1, 60)
	// long runs: containers that grow past 512 / 1024 / 2048 entries of one message kind
	var dominant uint16
	if idx%61 == 7 && len(hosted) > 0 {
		n = r.Range(520, 4500)
		dominant = hosted[r.Intn(len(hosted))]
		for k := 0; k < 8 && !hostsOf(t)[dominant].Slice; k++ {
			dominant = hosted[r.Intn(len(hosted))]
		}
	}
	seq := 0
	for i := 0; i < n; i++ {
		var gl uint16
		x := r.Intn(20)
		switch {
		case dominant != 0 && x < 18:
			gl = dominant
		case x == 0:
			gl = unknownGlobal(r)
		case repeat && x == 1:
			gl = 0
		case x < 11 && len(hosted) > 0:
			gl = hosted[r.Intn(len(hosted))]
		default:
			gl = prof.Mesgs[r.Intn(len(prof.Mesgs))].Num
			if gl == 0 {
				gl = 49
			}
		}
		seq++
		if gl == 0 {
			// repeated file_id: same type (1/2), another supported type, any byte
			// (0xFF = invalid included), or no type field at all
			nt := t
			withType := true
			switch r.Intn(6) {
			case 0:
				nt = supportedFileTypes[r.Intn(len(supportedFileTypes))]
			case 1:
				nt = []byte{0xFF, 0, r.Byte()}[r.Intn(3)]
			case 2:
				withType = false
			}
			d := &DefOp{Local: byte(r.Intn(16)), Arch: g.arch(), Global: 0, Fields: [][3]int{{2, 2, 0x84}}}
			if r.Bool() {
				d.Local = byte(r.Intn(4)) // may travel under a compressed-timestamp header
			}
			if withType {
				d.Fields = [][3]int{{0, 1, 0}, {2, 2, 0x84}}
			}
			g.emitDef(d)
			var pl []byte
			if withType {
				pl = append(pl, nt)
			}
			sb := make([]byte, 2)
			putN(sb, d.be(), uint64(seq))
			if d.Local < 4 && r.Bool() {
				g.emitData(d.Local, true, byte(r.Intn(32)), append(pl, sb...))
			} else {
				g.emitData(d.Local, false, 0, append(pl, sb...))
			}
			continue
		}
		pf := seqField(gl)
		if !prof.Known(gl) {
			pf = nil
		}
		// find a live slot for this message or define one
		local := byte(255)
		for k, d := range g.defs {
			if d != nil && d.Global == gl && r.Chance(3, 4) {
				local = byte(k)
				break
			}
		}
		if local == 255 {
			local = byte(r.Intn(16))
			d := &DefOp{Local: local, Arch: g.arch(), Global: gl}
			if pf != nil {
				d.Fields = [][3]int{{int(pf.Num), baseOf(pf.Base).Size, int(pf.Base)}}
				if rich && gl != gRecord && gl != gLap && gl != gSession && gl != gSegmentLap && gl != gEvent {
					// further scalar integer fields with seeded values (counts, indexes,
					// enums): a container must not treat a message by what it says
					for _, xf := range prof.byMesg[gl] {
						xb := baseOf(xf.Base)
						if xf == pf || xf.Kind != kindNative || xf.Array || !xb.Integer || len(d.Fields) >= 5 || !r.Chance(1, 2) {
							continue
						}
						d.Fields = append(d.Fields, [3]int{int(xf.Num), xb.Size, int(xf.Base)})
					}
				}
			} else if !prof.Known(gl) {
				d.Fields = [][3]int{{1, 2, 0x84}}
			}
			g.emitDef(d)
		}
		d := g.defs[local]
		var pl []byte
		for fi, fd := range d.Fields {
			b := make([]byte, fd[1])
			v := uint64(seq)
			if fd[1] == 1 {
				v = uint64(seq%250) + 1
				if rich && r.Bool() {
					v = uint64(r.Intn(12)) // the low values, where enums have their named members
				}
			}
			if fi > 0 && prof.Known(d.Global) {
				// extra field of a rich scenario
				if r.Chance(1, 2) {
					v = uint64(r.Intn(200))
				} else {
					v = pickValue(r, baseOf(byte(fd[2])), true)
				}
			}
			putN(b, d.be(), v)
			pl = append(pl, b...)
		}
		if local < 4 && r.Chance(1, 3) {
			g.emitData(local, true, byte(r.Intn(32)), pl)
		} else {
			g.emitData(local, false, 0, pl)
		}
	}
	rs := &RecStream{Header: HeaderSpec{Size: 12 + 2*r.Intn(2), Proto: 0x20, Profile: 2115, HCRC: "ok"}, Ops: g.ops}
	return &Scenario{V: 1, Property: "C03", Engine: "rx", Seed: p.seed, Index: idx,
		Media: []Medium{{ID: "m0", Records: rs}},
		Tasks: []Task{{ID: 0, Call: "Decode", In: "m0", Read: genPlan(r, false, true)}, {ID: 1, Call: "NewFile", Arch: itoa(int(t))}}}
}

func (p *propC03) Check(sc *Scenario, st *Stats) []Violation {
	var vs []Violation
	bad := func(class, format string, a ...interface{}) {
		vs = append(vs, Violation{Property: "C03", Class: "C03/" + class, Detail: fmt.Sprintf(format, a...)})
	}
	if len(sc.Media) == 0 || sc.Media[0].Records == nil || len(sc.Tasks) == 0 {
		return nil
	}
	rs := sc.Media[0].Records
	if !streamSane(rs.Ops) {
		return nil
	}
	t, ok := fileTypeOfOps(rs.Ops)
	if !ok {
		return nil
	}
	mo := interpret(rs.Ops)
	if mo.ErrOp >= 0 {
		return nil
	}
	media := sc.buildMedia()
	r := runTask(&sc.Tasks[0], media, nil, nil)
	st.Observe(r)
	if r.Panic != "" {
		bad("panic", "Decode panicked: %s", r.Panic)
		return vs
	}
	supported := isSupportedFileType(t)
	// NewFile verdict
	nf, nerr := fit.NewFile(fit.FileType(t), fit.NewHeader(fit.V20, false))
	if supported {
		if nerr != nil || nf == nil {
			bad("NewFile/rejects-supported-type", "NewFile(%d) failed: %v", t, nerr)
		} else if c := containerOf(nf); !c.IsValid() {
			bad("NewFile/no-container", "NewFile(%d): the accessor for its type returns no container", t)
		}
	} else if nerr == nil {
		bad("NewFile/accepts-unsupported-type", "NewFile(%d) succeeded for a file type that is not supported", t)
	}
	// file_id repetitions
	typeChanges := false
	lastSwitch := 0
	nid := 0
	for i, m := range mo.Msgs {
		if m.Global != 0 {
			continue
		}
		nid++
		if nid == 1 {
			continue
		}
		if tv, ok := parseU(m.Fields[0]); !ok || byte(tv) != t {
			// another type, the invalid type, or no type field at all
			typeChanges = true
			lastSwitch = i
			st.Probe("repeated file_id other type")
			st.ProbeIf(!ok, "repeated file_id without type field")
		} else {
			st.Probe("repeated file_id same type")
		}
	}
	if !supported {
		if r.ErrClass == "nil" {
			bad("accepts-unsupported-type", "Decode accepted file type %d", t)
		} else {
			st.Probe("unsupported type rejected")
			st.Key(t, "rejected")
		}
		return vs
	}
	if typeChanges {
		if r.ErrClass != "nil" {
			return vs // reading 1: an error
		}
		// reading 2: File.Type()'s accessor returns a container holding the routed messages
		f := r.file
		ft := byte(f.Type())
		c := containerOf(f)
		if !c.IsValid() {
			bad("type-change/no-container-for-reported-type", "Decode returned nil, File.Type()=%d, but the matching accessor returns no container (file_id type changed mid-stream)", ft)
			return vs
		}
		d1 := compareFile(f, ft, withoutFileID(mo.Msgs), compareOpts{skipAccum: true}, nil)
		d2 := compareFile(f, ft, withoutFileID(mo.Msgs[lastSwitch:]), compareOpts{skipAccum: true}, nil)
		if len(d1) > 0 && len(d2) > 0 {
			bad("type-change/container-content", "container of reported type %d does not hold the routed messages: %s", ft, d1[0].String())
		}
		return vs
	}
	if r.ErrClass != "nil" {
		bad("rejects-supported-type", "Decode failed for supported file type %d: %s", t, r.Err)
		return vs
	}
	f := r.file
	if byte(f.Type()) != t {
		bad("type-mismatch", "File.Type()=%d, file_id said %d", f.Type(), t)
		return vs
	}
	want := fileTypeAccessor[t] + ":ok"
	if got := strings.TrimPrefix(findLine(r.Dump, "Accessors="), "Accessors="); got != want {
		bad("accessors", "file type %d: accessors that return without error: %q, want exactly %q", t, got, want)
	}
	st.Probe("all accessors checked")
	hs := hostsOf(t)
	kinds := map[uint16]bool{}
	prevHeld, unheldBetween := false, false
	ptrCount := map[uint16]int{}
	for _, m := range mo.Msgs {
		h, held := hs[m.Global]
		if held && !h.OnFile {
			kinds[m.Global] = true
			if !h.Slice {
				ptrCount[m.Global]++
			}
			prevHeld = true
		} else if !held && prevHeld {
			unheldBetween = true
		}
	}
	st.ProbeIf(unheldBetween, "unheld type between held ones")
	perKind := map[uint16]int{}
	for _, m := range mo.Msgs {
		perKind[m.Global]++
	}
	for g, c := range perKind {
		if h, ok := hs[g]; ok && h.Slice {
			st.ProbeIf(c > 512, "slice longer than 512")
			st.ProbeIf(c > 2048, "slice longer than 2048")
		}
	}
	for _, c := range ptrCount {
		if c > 1 {
			st.Probe("pointer slot overwritten")
			break
		}
	}
	if len(kinds) >= 2 {
		st.Nontrivial++
	}
	for g := range kinds {
		h := hs[g]
		st.Key(t, h.Field, h.Slice, len(kinds) >= 2)
	}
	diffs := compareFile(f, t, mo.Msgs, compareOpts{skipAccum: true}, st)
	seen := map[string]bool{}
	for _, d := range diffs {
		cls := fmt.Sprintf("routing/%s/%s", fileTypeAccessor[t], d.Slot)
		if d.Field != "<count>" && d.Field != "<slot>" {
			cls += "/content"
		}
		if seen[cls] {
			continue
		}
		seen[cls] = true
		bad(cls, "file type %d: %s", t, d.String())
		if len(vs) > 4 {
			break
		}
	}
	return vs
}

func withoutFileID(ms []ModelMsg) []ModelMsg {
	var out []ModelMsg
	for _, m := range ms {
		if m.Global != 0 {
			out = append(out, m)
		}
	}
	return out
}
