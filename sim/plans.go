package main

import "strings"

// Read-schedule policies (DESIGN 2.2). Every plan is explicit: a bounded chunk
// list followed by a deterministic tail.

var tailSizes = []int{1, 2, 3, 5, 7, 13, 64, 100, 255, 4095, 4096, 4097, 5000, 40000}

func planFull() ReadPlan { return ReadPlan{Tail: "full"} }
func planOne() ReadPlan  { return ReadPlan{Tail: "one"} }
func planK(k int) ReadPlan {
	return ReadPlan{Tail: "k" + itoa(k)}
}

func itoa(n int) string {
	if n == 0 {
		return "0"
	}
	neg := n < 0
	if neg {
		n = -n
	}
	var b [20]byte
	i := len(b)
	for n > 0 {
		i--
		b[i] = byte('0' + n%10)
		n /= 10
	}
	if neg {
		i--
		b[i] = '-'
	}
	return string(b[i:])
}

// genPlan draws a read plan. allowStutter / allowEOFData enable the two
// discouraged-but-legal behaviours.
func genPlan(r *Rng, allowStutter, allowEOFData bool) ReadPlan {
	var p ReadPlan
	switch r.Intn(6) {
	case 0:
		p = planFull()
	case 1:
		p = planOne()
	case 2:
		p = planK(tailSizes[r.Intn(len(tailSizes))])
	default:
		n := r.Range(1, 48)
		for i := 0; i < n; i++ {
			switch r.Intn(6) {
			case 0:
				p.Chunks = append(p.Chunks, 1)
			case 1:
				p.Chunks = append(p.Chunks, r.Range(2, 17))
			case 2:
				p.Chunks = append(p.Chunks, r.Range(18, 300))
			case 3:
				p.Chunks = append(p.Chunks, 4096+r.Range(-2, 2))
			case 4:
				if allowStutter {
					for k := r.Range(1, 3); k > 0; k-- {
						p.Chunks = append(p.Chunks, 0)
					}
					p.Chunks = append(p.Chunks, r.Range(1, 9))
				} else {
					p.Chunks = append(p.Chunks, 3)
				}
			default:
				p.Chunks = append(p.Chunks, 100000)
			}
		}
		switch r.Intn(3) {
		case 0:
			p.Tail = "full"
		case 1:
			p.Tail = "one"
		default:
			p.Tail = "k" + itoa(tailSizes[r.Intn(len(tailSizes))])
		}
		if allowStutter && r.Chance(1, 6) {
			// a (0,nil) before every data read, for the whole stream: hundreds of legal
			// "nothing yet" results, never two in a row
			p.Tail = "zk" + itoa([]int{1, 3, 16, 64, 500}[r.Intn(5)])
		}
	}
	if allowEOFData && r.Chance(1, 4) {
		p.EOFWithData = true
	}
	if r.Chance(1, 16) {
		// a standard-library reader instead of the simulated one
		p = ReadPlan{Native: []string{"bytes", "bufio"}[r.Intn(2)]}
	}
	return p
}

func planClass(p ReadPlan) string {
	c := "full"
	if p.Native != "" {
		return "native-" + p.Native
	}
	switch {
	case len(p.Chunks) > 0:
		c = "mixed"
		for _, x := range p.Chunks {
			if x == 0 {
				c = "mixed+stutter"
				break
			}
		}
		if strings.HasPrefix(p.Tail, "z") {
			c = "mixed+stutter-every"
		}
	case p.Tail == "one":
		c = "one"
	case strings.HasPrefix(p.Tail, "k"):
		c = "short"
	case strings.HasPrefix(p.Tail, "z"):
		c = "short+stutter-every"
	}
	if p.EOFWithData {
		c += "+eofdata"
	}
	return c
}

// isThorough reports the thorough tier, also for "thorough+" (later seeds of a
// thorough run, which skip the seed-independent enumerated families).
func isThorough(tier string) bool { return strings.HasPrefix(tier, "thorough") }
