module fitsim

go 1.21

require github.com/tormoder/fit v0.0.0

replace github.com/tormoder/fit => /repo
