package main

import (
	_ "embed"
	"encoding/json"
	"fmt"
	"reflect"
	"sort"

	"github.com/tormoder/fit"
)

// Profile snapshot: which struct field a (message, field number) lands in,
// base type, array flag, kind and length. The models use the snapshot pinned
// in profile_21_115.json (exported once from the pristine tree through the
// verif hook); the live table is compared with it at start-up.

type PField struct {
	Mesg   uint16 `json:"m"`
	Num    byte   `json:"n"`
	SIndex int    `json:"s"`
	Kind   byte   `json:"k"`
	Base   byte   `json:"b"`
	Array  bool   `json:"a,omitempty"`
	Length byte   `json:"l"`
	Name   string `json:"name"`
	GoType string `json:"go"`
}

type PMesg struct {
	Num    uint16 `json:"num"`
	Name   string `json:"name"`
	NField int    `json:"nfield"`
}

type Profile struct {
	Major  int      `json:"major"`
	Minor  int      `json:"minor"`
	Fields []PField `json:"fields"`
	Mesgs  []PMesg  `json:"mesgs"`

	byKey  map[uint32]*PField
	byMesg map[uint16][]*PField // sorted by sindex
	mesg   map[uint16]*PMesg
	Source string `json:"-"`
}

//go:embed profile_21_115.json
var snapshotJSON []byte

func (p *Profile) index() {
	p.byKey = map[uint32]*PField{}
	p.byMesg = map[uint16][]*PField{}
	p.mesg = map[uint16]*PMesg{}
	for i := range p.Fields {
		f := &p.Fields[i]
		p.byKey[uint32(f.Mesg)<<8|uint32(f.Num)] = f
		p.byMesg[f.Mesg] = append(p.byMesg[f.Mesg], f)
	}
	for _, l := range p.byMesg {
		sort.Slice(l, func(i, j int) bool { return l[i].SIndex < l[j].SIndex })
	}
	for i := range p.Mesgs {
		p.mesg[p.Mesgs[i].Num] = &p.Mesgs[i]
	}
}

func (p *Profile) Field(m uint16, n byte) *PField { return p.byKey[uint32(m)<<8|uint32(n)] }
func (p *Profile) Known(m uint16) bool            { return p.mesg[m] != nil }
func (p *Profile) MesgName(m uint16) string {
	if x := p.mesg[m]; x != nil {
		return x.Name
	}
	return fmt.Sprintf("mesg%d", m)
}

func liveProfile() *Profile {
	p := &Profile{Major: fit.ProfileMajorVersion, Minor: fit.ProfileMinorVersion, Source: "live"}
	known := fit.VerifKnownMesgNums()
	sort.Slice(known, func(i, j int) bool { return known[i] < known[j] })
	for _, mn := range known {
		pm := PMesg{Num: mn, Name: fmt.Sprintf("mesg%d", mn)}
		if t, ok := fit.VerifMesgType(mn); ok {
			pm.Name = t.Name()
			pm.NField = t.NumField()
		}
		p.Mesgs = append(p.Mesgs, pm)
	}
	for _, f := range fit.VerifFields() {
		pf := PField{Mesg: f.MesgNum, Num: f.FieldNum, SIndex: f.SIndex, Kind: f.Kind, Base: f.Base, Array: f.Array, Length: f.Length}
		if t, ok := fit.VerifMesgType(f.MesgNum); ok && f.SIndex < t.NumField() {
			sf := t.Field(f.SIndex)
			pf.Name = sf.Name
			pf.GoType = sf.Type.String()
		}
		p.Fields = append(p.Fields, pf)
	}
	p.index()
	return p
}

var prof *Profile
var profNote string

// loadProfile decides which table the models use (DESIGN 2.5).
func loadProfile() {
	live := liveProfile()
	snap := &Profile{Source: "snapshot"}
	if len(snapshotJSON) > 2 {
		if err := json.Unmarshal(snapshotJSON, snap); err != nil {
			fatalInfra("snapshot unreadable: %v", err)
		}
		snap.index()
	} else {
		prof, profNote = live, "live (no snapshot)"
		return
	}
	if live.Major != snap.Major || live.Minor != snap.Minor {
		prof, profNote = live, fmt.Sprintf("live %d.%d (version constants differ from snapshot %d.%d)", live.Major, live.Minor, snap.Major, snap.Minor)
		return
	}
	prof = snap
	a, _ := json.Marshal(live.Fields)
	b, _ := json.Marshal(snap.Fields)
	if string(a) != string(b) {
		profNote = "21.115/snapshot (live table DIFFERS from snapshot; snapshot rules)"
	} else {
		profNote = "21.115/snapshot"
	}
}

// mesgType / newMesg go through the hook (constructors are the code under test).
func mesgType(mn uint16) reflect.Type {
	t, _ := fit.VerifMesgType(mn)
	return t
}
