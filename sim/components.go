package main

import (
	"strconv"
)

// Component model (C18): which destination receives which bit slice of which
// source, for the five message kinds the property names, with per-file
// accumulators. Written from the FIT profile's component columns.

const (
	gSession    = 18
	gLap        = 19
	gRecord     = 20
	gEvent      = 21
	gSegmentLap = 142
)

// FIT "event" enum values (Profile.xlsx, type event).
const (
	evSportPoint      = 33
	evFrontGearChange = 42
	evRearGearChange  = 43
)

type accum struct{ last, sum uint32 }

func (a *accum) add(v uint32, bits uint) uint32 {
	mask := uint32(1)<<bits - 1
	a.sum += (v - a.last) & mask
	a.last = v
	return a.sum
}

type accState struct {
	dist, cycles, power accum
	// raw source samples in stream order (for known-finding classification)
	distSamples []uint32
}

func newAccState() *accState { return &accState{} }

type expMsg struct {
	fields   map[int]string
	dontCare map[int]bool
	accum    map[int]bool // accumulated destinations (distance, total_cycles, accumulated_power)
	comp     map[int]bool // any component destination that was written by the rule
}

var nameIndexCache = map[uint16]map[string]*PField{}

func fieldByName(g uint16, name string) *PField {
	m := nameIndexCache[g]
	if m == nil {
		m = map[string]*PField{}
		for _, pf := range prof.byMesg[g] {
			m[pf.Name] = pf
		}
		nameIndexCache[g] = m
	}
	return m[name]
}

func parseU(s string) (uint64, bool) {
	if len(s) < 2 || s[0] != 'u' {
		return 0, false
	}
	v, err := strconv.ParseUint(s[1:], 10, 64)
	return v, err == nil
}

// expandModelMsg applies the component rules to one model message.
func expandModelMsg(m *ModelMsg, acc *accState) *expMsg {
	em := &expMsg{fields: map[int]string{}, dontCare: map[int]bool{}, accum: map[int]bool{}, comp: map[int]bool{}}
	for k, v := range m.Fields {
		em.fields[k] = v
	}
	for k, v := range m.DontCare {
		em.dontCare[k] = v
	}
	g := m.Global
	overridden := map[int]bool{} // destinations that were transmitted and then replaced by their source's slice
	// src (scalar uint) -> dst plain copy of the 16-bit value
	copy16 := func(src, dst string) {
		sp, dp := fieldByName(g, src), fieldByName(g, dst)
		if sp == nil || dp == nil {
			return
		}
		if em.dontCare[sp.SIndex] {
			em.dontCare[dp.SIndex] = true
			return
		}
		sv, ok := parseU(em.fields[sp.SIndex])
		if !ok || sv == 0xFFFF {
			return // absent or invalid source: destination untouched
		}
		// a valid source decides the destination even when the destination was
		// also transmitted (the statement has no exception for that case)
		if _, explicit := m.Fields[dp.SIndex]; explicit {
			overridden[dp.SIndex] = true
		}
		em.fields[dp.SIndex] = "u" + strconv.FormatUint(sv&0xFFFF, 10)
		em.comp[dp.SIndex] = true
	}
	setU := func(dst string, v uint64, accumulated bool) {
		dp := fieldByName(g, dst)
		if dp == nil {
			return
		}
		if accumulated {
			em.accum[dp.SIndex] = true
		}
		if _, explicit := m.Fields[dp.SIndex]; explicit {
			if accumulated {
				em.dontCare[dp.SIndex] = true // don't-care 5: explicit running total next to its compressed source
				return
			}
			overridden[dp.SIndex] = true
		}
		em.fields[dp.SIndex] = "u" + strconv.FormatUint(v, 10)
		em.comp[dp.SIndex] = true
	}
	switch g {
	case gRecord:
		copy16("Altitude", "EnhancedAltitude")
		copy16("Speed", "EnhancedSpeed")
		if sp := fieldByName(g, "CompressedSpeedDistance"); sp != nil {
			if em.dontCare[sp.SIndex] {
				for _, n := range []string{"Speed", "Distance", "EnhancedSpeed"} {
					if dp := fieldByName(g, n); dp != nil {
						em.dontCare[dp.SIndex] = true
					}
				}
			} else if v := em.fields[sp.SIndex]; len(v) == 7 && v[0] == 'b' && v != "bffffff" {
				b := unhex(v[1:])
				setU("Speed", uint64(b[0])|uint64(b[1]&0x0F)<<8, false)
				raw := uint32(b[1]>>4) | uint32(b[2])<<4
				acc.distSamples = append(acc.distSamples, raw)
				setU("Distance", uint64(acc.dist.add(raw, 12)), true)
				if dp := fieldByName(g, "EnhancedSpeed"); dp != nil {
					em.dontCare[dp.SIndex] = true // statement silent on re-expansion of the derived speed
				}
			}
		}
		if sp := fieldByName(g, "Cycles"); sp != nil {
			if em.dontCare[sp.SIndex] {
				if dp := fieldByName(g, "TotalCycles"); dp != nil {
					em.dontCare[dp.SIndex] = true
				}
			} else if sv, ok := parseU(em.fields[sp.SIndex]); ok && sv != 0xFF {
				setU("TotalCycles", uint64(acc.cycles.add(uint32(sv), 8)), true)
			}
		}
		if sp := fieldByName(g, "CompressedAccumulatedPower"); sp != nil {
			if em.dontCare[sp.SIndex] {
				if dp := fieldByName(g, "AccumulatedPower"); dp != nil {
					em.dontCare[dp.SIndex] = true
				}
			} else if sv, ok := parseU(em.fields[sp.SIndex]); ok && sv != 0xFFFF {
				setU("AccumulatedPower", uint64(acc.power.add(uint32(sv), 16)), true)
			}
		}
	case gLap, gSession:
		copy16("AvgSpeed", "EnhancedAvgSpeed")
		copy16("MaxSpeed", "EnhancedMaxSpeed")
		copy16("AvgAltitude", "EnhancedAvgAltitude")
		copy16("MaxAltitude", "EnhancedMaxAltitude")
		copy16("MinAltitude", "EnhancedMinAltitude")
	case gSegmentLap:
		copy16("AvgAltitude", "EnhancedAvgAltitude")
		copy16("MaxAltitude", "EnhancedMaxAltitude")
		copy16("MinAltitude", "EnhancedMinAltitude")
	case gEvent:
		copy16("Data16", "Data")
		dp, ep := fieldByName(g, "Data"), fieldByName(g, "Event")
		if dp == nil || ep == nil {
			break
		}
		dests := []string{"Score", "OpponentScore", "RearGearNum", "RearGear", "FrontGearNum", "FrontGear"}
		// data transmitted next to a valid data16: data = data16, but the
		// statement is silent on which of the two the gear/score bytes follow
		if em.dontCare[dp.SIndex] || em.dontCare[ep.SIndex] || overridden[dp.SIndex] {
			for _, n := range dests {
				if p := fieldByName(g, n); p != nil {
					em.dontCare[p.SIndex] = true
				}
			}
			break
		}
		dv, ok := parseU(em.fields[dp.SIndex])
		if !ok || dv == 0xFFFFFFFF {
			break
		}
		ev, ok := parseU(em.fields[ep.SIndex])
		if !ok {
			break
		}
		switch ev {
		case evSportPoint:
			setU("Score", dv&0xFFFF, false)
			setU("OpponentScore", dv>>16&0xFFFF, false)
		case evFrontGearChange, evRearGearChange:
			setU("RearGearNum", dv&0xFF, false)
			setU("RearGear", dv>>8&0xFF, false)
			setU("FrontGearNum", dv>>16&0xFF, false)
			setU("FrontGear", dv>>24&0xFF, false)
		}
	}
	return em
}
