package main

import (
	"fmt"
	"strings"
)

// C01 - decoding entry points are total: no panic, no hang, for any bytes under
// any read chunking; plus the single-definition sweep.

type sweepCase struct {
	global uint16
	num    int
}

type propC01 struct {
	seed   uint64
	tier   string
	pool   []poolEntry
	nMut   int
	cases  []sweepCase
	types  []int
	sizes  []int
	nSweep int
	nValid int
	c12    *propC12
	c13    *propC13
	count  int
}

func init() { register(&propC01{}) }

func (p *propC01) ID() string     { return "C01" }
func (p *propC01) Engine() string { return "rx" }
func (p *propC01) Level() string  { return "exploration" }
func (p *propC01) Rule() string {
	return "three families. valid: unmutated streams of the C12 / C13 / C18 / C02 generators (time rules, local types, components, mixed) through all six entry points. mutation: a valid stream (corpus prefix <= 8 KiB re-framed, or model-built) with 1-8 structure-aware byte mutations (definition triples, field counts, arch byte, global number, record header bits, developer descriptors, header bytes, data size), CRCs re-computed half of the time, fed to all six entry points under a seeded read plan incl. stutters, EOF-with-data and a random tail; " +
		"sweep (workload enumeration): file_id + one definition of one field (every profile (message, field) + 3 unlisted field numbers per message + unknown messages) x base-type bytes x sizes x both byte orders x 5 data patterns, decoded with and without logger/unknown options. " +
		"key = mutation: (entry point, mutation kinds, plan class, outcome class); sweep: (message, field known?, type byte, size, order, outcome); non-trivial when parsing got past the header"
}
func (p *propC01) Assumptions() []string {
	return []string{
		"a hang is a call that issues more than 4n+64 Read calls (n = stream length, stutters added) or makes no progress for 60 s without reaching a seam",
		"readers that return (0,nil) forever are not simulated (they break the io.Reader contract)",
		"the sweep enumerates the listed axes, not all 256 field numbers for every message (unlisted numbers are represented by 3 per message incl. 255)",
	}
}
func (p *propC01) ProbeNames() []string {
	return []string{"definition rejected", "definition accepted, message known", "definition accepted, message unknown", "decode ok", "readFull straddled a chunk", "stutter consumed", "debug branch ran", "chained restart on garbage", "mutant accepted by Decode"}
}

var weirdTypes = []int{0x03, 0x80, 0x11, 0x1F, 0x27, 0x47, 0xFF}

func (p *propC01) Prepare(seed uint64, tier string) int {
	p.seed, p.tier = seed, tier
	sweep := !strings.HasSuffix(tier, "+")
	base := strings.TrimSuffix(tier, "+")
	p.pool = nil
	for _, e := range corpusFrames(2000000, true) {
		b := e.Bytes
		if len(b) > 8192 {
			// cut to <= 8 KiB at a record boundary and re-frame
			f := parseFrame(b, 0)
			end := f.HeaderSize
			for _, r := range f.Records {
				if r.End > 8000 {
					break
				}
				end = r.End
			}
			b = frameBytes(HeaderSpec{Size: f.HeaderSize, Proto: f.Proto, Profile: f.Profile, HCRC: "ok"}, b[f.HeaderSize:end], "ok")
		}
		p.pool = append(p.pool, poolEntry{Name: e.Name, Bytes: b})
	}
	nModel := 60
	for i := 0; i < nModel; i++ {
		r := NewRng(seed, "C01/pool", i)
		ft := supportedFileTypes[r.Intn(len(supportedFileTypes))]
		rs := genStream(r, StreamOpts{FT: ft, NData: r.Range(1, 25), Arch: 2, Unknown: true, Dev: true, Compressed: true, Unhosted: true, Narrow: true, Accum: true, Hdr14: r.Bool(), BigArr: true})
		if i%10 == 5 {
			withJumbo(r, rs)
		}
		p.pool = append(p.pool, poolEntry{Name: fmt.Sprintf("model%d", i), Bytes: rs.Build()})
	}
	p.nMut = 40000
	if base == "thorough" {
		p.nMut = 1500000
	}
	if base == "replay" {
		p.nMut = 0
	}
	// sweep axes
	p.cases = nil
	for _, m := range prof.Mesgs {
		for _, pf := range prof.byMesg[m.Num] {
			p.cases = append(p.cases, sweepCase{m.Num, int(pf.Num)})
		}
		n := 0
		for _, cand := range []int{255, 254, 250, 200, 100, 99} {
			if prof.Field(m.Num, byte(cand)) == nil && n < 3 {
				p.cases = append(p.cases, sweepCase{m.Num, cand})
				n++
			}
		}
	}
	for _, g := range []uint16{1, 394, 0xFFFE, 0xFF00} { // hole in table, first beyond the table, max, manufacturer range
		for _, n := range []int{0, 253, 255} {
			p.cases = append(p.cases, sweepCase{g, n})
		}
	}
	p.types = nil
	p.sizes = nil
	if base == "thorough" {
		for t := 0; t < 256; t++ {
			p.types = append(p.types, t)
		}
		for s := 0; s < 256; s++ {
			p.sizes = append(p.sizes, s)
		}
	} else {
		for _, b := range baseTable {
			p.types = append(p.types, int(b.Byte))
		}
		p.types = append(p.types, weirdTypes...)
		for s := 0; s <= 9; s++ {
			p.sizes = append(p.sizes, s)
		}
		p.sizes = append(p.sizes, 12, 15, 16, 17, 24, 31, 32, 33, 48, 63, 64, 65, 100, 127, 128, 129, 200, 240, 248, 252, 253, 254, 255)
	}
	p.nSweep = 0
	if sweep {
		p.nSweep = len(p.cases) * len(p.types) * len(p.sizes) * 2 * 5
	}
	// unmutated streams of the other properties' generators (time rules, local
	// types, components, long runs): no entry point may panic or hang on them either
	p.nValid = 30000
	if base == "thorough" {
		p.nValid = 1000000
	}
	if base == "replay" {
		p.nValid = 0
	}
	p.c12, p.c13 = &propC12{}, &propC13{}
	p.c12.Prepare(seed, "quick")
	p.c13.Prepare(seed, "quick")
	p.count = p.nMut + p.nSweep + p.nValid
	return p.count
}

func (p *propC01) genValid(i int) *Scenario {
	r := NewRng(p.seed, "C01/valid", i)
	var rs *RecStream
	switch i % 4 {
	case 0:
		if sc := p.c12.Gen(i); sc != nil && len(sc.Media) > 0 {
			rs = sc.Media[0].Records
		}
	case 1:
		if sc := p.c13.Gen(i); sc != nil && len(sc.Media) > 0 {
			rs = sc.Media[0].Records
		}
	case 2:
		h := c18Hosts[r.Intn(len(c18Hosts))]
		rs = genComponentStream(r, h.ft, h.mn)
	}
	if rs == nil {
		ft := supportedFileTypes[r.Intn(len(supportedFileTypes))]
		rs = genStream(r, StreamOpts{FT: ft, NData: r.Range(1, 40), Arch: 2, Unknown: true, Dev: true, Compressed: true, Unhosted: true, Narrow: true, Accum: true, UTF8: r.Bool(), Hdr14: r.Bool(), BigArr: true})
	}
	sc := &Scenario{V: 1, Property: "C01", Engine: "rx", Family: "valid", Seed: p.seed, Index: p.nMut + p.nSweep + i,
		Media: []Medium{{ID: "m0", Records: rs}}, Params: map[string]string{"source": []string{"C12", "C13", "C18", "C02"}[i%4]}}
	plan := genPlan(r, true, true)
	for k, c := range c01Calls {
		t := Task{ID: k, Call: c, In: "m0", Read: plan}
		if r.Chance(1, 4) {
			t.Opts = []string{"logger", "unknownFields", "unknownMessages"}
		}
		sc.Tasks = append(sc.Tasks, t)
	}
	return sc
}

var c01Calls = []string{"Decode", "DecodeChained", "CheckIntegrity", "CheckIntegrityHeader", "DecodeHeader", "DecodeHeaderAndFileID"}

func (p *propC01) Gen(idx int) *Scenario {
	if idx < p.nMut {
		return p.genMutation(idx)
	}
	if idx >= p.nMut+p.nSweep {
		return p.genValid(idx - p.nMut - p.nSweep)
	}
	return p.genSweep(idx - p.nMut)
}

func (p *propC01) genSweep(x int) *Scenario {
	if x >= p.nSweep {
		return nil
	}
	x0 := x
	pat := x % 5
	x /= 5
	order := x % 2
	x /= 2
	size := p.sizes[x%len(p.sizes)]
	x /= len(p.sizes)
	tb := p.types[x%len(p.types)]
	x /= len(p.types)
	c := p.cases[x%len(p.cases)]
	if baseOf(byte(tb)) == nil && len(p.types) == 256 {
		// thorough tier: a type byte outside the 17 defined ones is rejected before
		// size or data matter; keep 4 sizes and one pattern for those
		if pat != 0 || !(size == 0 || size == 1 || size == 4 || size == 255) {
			return nil
		}
	}
	arch := "le"
	if order == 1 {
		arch = "be"
	}
	data := make([]byte, size)
	for i := range data {
		switch pat {
		case 0:
			data[i] = byte(i + 1)
		case 1:
			data[i] = 0
		case 2:
			data[i] = 0xFF
		case 3:
			if i%3 == 2 {
				data[i] = 0
			} else {
				data[i] = byte('a' + i%26)
			}
		case 4:
			data[i] = byte('A' + i%26)
			if i == size-1 {
				data[i] = 0
			}
		}
	}
	ops := []Op{
		{Def: &DefOp{Local: 0, Arch: "le", Global: 0, Fields: [][3]int{{0, 1, 0}}}},
		{Data: &DataOp{Local: 0, Bytes: "04"}},
		{Def: &DefOp{Local: 1, Arch: arch, Global: c.global, Fields: [][3]int{{c.num, size, tb}}}},
		{Data: &DataOp{Local: 1, Bytes: hexs(data)}},
	}
	h := uint64(x0/10)*2654435761 ^ uint64(size)*40503 ^ uint64(tb)*97 ^ uint64(pat)
	if h%8 == 5 {
		// one case in eight: first a definition with the longest possible developer
		// field list and not a single zero byte, so that whatever scratch space
		// definitions are read into is non-zero when the swept field is parsed
		poison := &DefOp{Local: 2, Arch: "le", Global: 0xFF00, Fields: [][3]int{{1, 1, 2}}}
		for k := 0; k < 255; k++ {
			poison.Dev = append(poison.Dev, [3]int{1 + k%255, 1 + k%3, 1 + k%7})
		}
		ops = append(ops[:2:2], append([]Op{{Def: poison}}, ops[2:]...)...)
	}
	plan := planFull()
	switch h % 16 {
	case 0:
		plan = planOne()
	case 1:
		plan = planK(3)
	}
	sc := &Scenario{V: 1, Property: "C01", Engine: "rx", Family: "sweep", Seed: p.seed, Index: p.nMut + x0,
		Media: []Medium{{ID: "m0", Records: &RecStream{Header: HeaderSpec{Size: 12, Proto: 0x10, Profile: 2115}, Ops: ops}}},
		Tasks: []Task{
			{ID: 0, Call: "Decode", In: "m0", Read: plan},
			{ID: 1, Call: "Decode", In: "m0", Read: plan, Opts: []string{"logger", "unknownFields", "unknownMessages"}},
		}}
	return sc
}

// mutate applies one structure-aware mutation; returns its kind.
func mutateBytes(r *Rng, b []byte, f *Frame) ([]byte, string) {
	if len(b) < 14 {
		return append(b, r.Byte()), "append"
	}
	defs := []RecInfo{}
	datas := []RecInfo{}
	if f != nil {
		for _, rec := range f.Records {
			if rec.End > len(b) {
				break
			}
			if rec.Kind == "def" {
				defs = append(defs, rec)
			} else {
				datas = append(datas, rec)
			}
		}
	}
	kind := r.Intn(14)
	if len(defs) == 0 && kind < 7 {
		kind = 7 + r.Intn(7)
	}
	switch kind {
	case 0, 1, 2: // definition triple: num / size / type
		d := defs[r.Intn(len(defs))]
		n := len(d.Def.Fields)
		if n == 0 {
			b[d.Start+5] = byte(r.Range(1, 3))
			return b, "def.fieldcount"
		}
		i := r.Intn(n)
		off := d.Start + 6 + 3*i + kind
		switch kind {
		case 0:
			b[off] = r.Byte()
			return b, "def.num"
		case 1:
			sz := []int{0, 1, 2, 3, 4, 5, 7, 8, 9, 16, 255, int(r.Byte())}
			b[off] = byte(sz[r.Intn(len(sz))])
			return b, "def.size"
		default:
			if r.Bool() {
				b[off] = baseTable[r.Intn(len(baseTable))].Byte
			} else {
				b[off] = r.Byte()
			}
			return b, "def.type"
		}
	case 3:
		d := defs[r.Intn(len(defs))]
		b[d.Start+5] = []byte{0, 1, byte(len(d.Def.Fields) + 1), byte(len(d.Def.Fields)) - 1, 255, r.Byte()}[r.Intn(6)]
		return b, "def.fieldcount"
	case 4:
		d := defs[r.Intn(len(defs))]
		b[d.Start+2] = []byte{0, 1, 2, 0xFF}[r.Intn(4)]
		return b, "def.arch"
	case 5:
		d := defs[r.Intn(len(defs))]
		g := []uint16{0, 20, 21, 206, 207, 393, 394, 0xFFFF, 0xFFFE, uint16(r.Intn(400))}[r.Intn(10)]
		put16(b[d.Start+3:d.Start+5], r.Bool(), g)
		return b, "def.global"
	case 6:
		d := defs[r.Intn(len(defs))]
		b[d.Start] ^= 0x20 // toggle developer-data flag
		return b, "def.devflag"
	case 7:
		if len(datas) > 0 {
			d := datas[r.Intn(len(datas))]
			b[d.Start] = []byte{b[d.Start] ^ 0x80, b[d.Start] ^ 0x40, b[d.Start] ^ byte(1+r.Intn(15)), r.Byte()}[r.Intn(4)]
			return b, "rec.header"
		}
		fallthrough
	case 8:
		i := r.Intn(min(len(b), 14))
		b[i] = r.Byte()
		return b, "hdr.byte"
	case 9: // data size shrink / grow
		ds := getN(b[4:8], false)
		delta := []int64{-1, 1, -2, 2, -int64(r.Intn(64)), int64(r.Intn(64)), int64(r.Intn(1 << 20))}[r.Intn(7)]
		putN(b[4:8], false, uint64(int64(ds)+delta))
		return b, "hdr.datasize"
	case 10:
		i := r.Intn(len(b))
		b[i] ^= 1 << uint(r.Intn(8))
		return b, "bitflip"
	case 11: // insert
		i := r.Intn(len(b) + 1)
		ins := r.Bytes(r.Range(1, 4))
		nb := append(append(append([]byte{}, b[:i]...), ins...), b[i:]...)
		return nb, "insert"
	case 12: // delete
		i := r.Intn(len(b))
		n := r.Range(1, 4)
		if i+n > len(b) {
			n = len(b) - i
		}
		return append(append([]byte{}, b[:i]...), b[i+n:]...), "delete"
	default:
		i := r.Intn(len(b))
		b[i] = r.Byte()
		return b, "byte"
	}
}

func min(a, b int) int {
	if a < b {
		return a
	}
	return b
}

// reframe recomputes data size (optionally) and both CRCs for a 12/14-byte header.
func reframe(b []byte, fixSize bool) []byte {
	if len(b) < 14 {
		return b
	}
	hs := int(b[0])
	if hs != 12 && hs != 14 {
		return b
	}
	if len(b) < hs+2 {
		return b
	}
	if fixSize {
		putN(b[4:8], false, uint64(len(b)-hs-2))
	}
	if hs == 14 {
		c := crc16(b[:12])
		b[12], b[13] = byte(c), byte(c>>8)
	}
	ds := int(getN(b[4:8], false))
	end := hs + ds
	if end+2 <= len(b) && end >= hs {
		c := crc16(b[:end])
		b[end], b[end+1] = byte(c), byte(c>>8)
	}
	return b
}

func (p *propC01) genMutation(idx int) *Scenario {
	r := NewRng(p.seed, "C01/mut", idx)
	e := p.pool[r.Intn(len(p.pool))]
	b := append([]byte(nil), e.Bytes...)
	f := parseFrame(b, 0)
	var kinds []string
	n := r.Range(1, 8)
	if r.Chance(1, 2) {
		n = r.Range(1, 2)
	}
	for i := 0; i < n; i++ {
		var k string
		b, k = mutateBytes(r, b, f)
		kinds = append(kinds, k)
		if k == "insert" || k == "delete" {
			f = parseFrame(b, 0)
			if f != nil && (f.HeaderSize != 12 && f.HeaderSize != 14) {
				f = nil
			}
		}
	}
	if r.Chance(1, 2) {
		b = reframe(b, r.Chance(3, 4))
		kinds = append(kinds, "reframed")
	}
	m := Medium{ID: "m0", Hex: hexs(b)}
	switch r.Intn(7) {
	case 0:
		m.Tail = hexs(r.Bytes(r.Range(1, 64)))
	case 1:
		m.Tail = hexs(e.Bytes[:min(len(e.Bytes), 200)])
	case 2:
		m.Tail = strings.Repeat("00", r.Range(1, 70)) // zero padding behind the file
	case 3:
		m.Tail = strings.Repeat("ff", r.Range(1, 20))
	}
	sc := &Scenario{V: 1, Property: "C01", Engine: "rx", Family: "mutation", Seed: p.seed, Index: idx,
		Media: []Medium{m}, Params: map[string]string{"kinds": strings.Join(kinds, ","), "base": e.Name}}
	plan := genPlan(r, true, true)
	for i, c := range c01Calls {
		t := Task{ID: i, Call: c, In: "m0", Read: plan}
		if r.Chance(1, 4) {
			t.Opts = []string{"logger", "unknownFields", "unknownMessages"}
		}
		sc.Tasks = append(sc.Tasks, t)
	}
	return sc
}

func panicKey(s string) string {
	// stable prefix of a panic message (drop numbers)
	var b strings.Builder
	for _, c := range s {
		if c >= '0' && c <= '9' {
			continue
		}
		b.WriteRune(c)
		if b.Len() > 60 {
			break
		}
	}
	return strings.TrimSpace(b.String())
}

func (p *propC01) Check(sc *Scenario, st *Stats) []Violation {
	var vs []Violation
	res := runScenarioSeq(sc)
	sweep := sc.Family == "sweep"
	pc := ""
	if len(sc.Tasks) > 0 {
		pc = planClass(sc.Tasks[0].Read)
	}
	nontrivial := false
	for _, r := range res {
		st.Observe(r)
		if r.Panic != "" {
			cls := "C01/" + r.Call + "/panic/" + panicKey(r.Panic)
			if r.Hang {
				cls = "C01/" + r.Call + "/hang"
			}
			vs = append(vs, Violation{Property: "C01", Class: cls, Detail: fmt.Sprintf("%s: %s", r.Call, r.Panic)})
			continue
		}
		if r.Delivered > 14 {
			nontrivial = true
		}
		st.ProbeIf(r.Stutters > 0, "stutter consumed")
		st.ProbeIf(r.LogLines > 1, "debug branch ran")
		st.ProbeIf(r.ShortReads > 0 && r.Delivered > 20, "readFull straddled a chunk")
		if sweep {
			outcome := "ok"
			switch {
			case strings.Contains(r.Err, "validating"), strings.Contains(r.Err, "unknown base type"):
				outcome = "rejected"
				st.Probe("definition rejected")
			case r.ErrClass != "nil":
				outcome = "err:" + r.ErrClass
			default:
				st.Probe("decode ok")
				d := sc.Media[0].Records.Ops[len(sc.Media[0].Records.Ops)-2].Def
				if prof.Known(d.Global) {
					st.Probe("definition accepted, message known")
				} else {
					st.Probe("definition accepted, message unknown")
				}
			}
			if r.Task == 0 {
				d := sc.Media[0].Records.Ops[2].Def
				fd := d.Fields[0]
				known := prof.Field(d.Global, byte(fd[0])) != nil
				st.Key("sweep", d.Global, known, typeClass(fd[2]), sizeClass(fd[1]), d.Arch, outcome)
				if known {
					st.Field(d.Global, byte(fd[0]))
				}
			}
		} else {
			oc := r.ErrClass
			st.Key("mut", r.Call, kindSet(sc.Params["kinds"]), pc, oc)
			if r.Call == "Decode" && r.ErrClass == "nil" {
				st.Probe("mutant accepted by Decode")
			}
			if r.Call == "DecodeChained" && r.NFiles >= 1 && r.ErrClass != "nil" {
				st.Probe("chained restart on garbage")
			}
		}
	}
	if nontrivial {
		st.Nontrivial++
	}
	return vs
}

func typeClass(tb int) string {
	if baseOf(byte(tb)) != nil {
		return itoa(tb)
	}
	if tb&0x1F <= 0x10 {
		return "flagmismatch" + itoa(tb&0x1F)
	}
	return "unknownindex"
}

func sizeClass(n int) string {
	switch {
	case n <= 4:
		return itoa(n)
	case n <= 8:
		return "5-8"
	case n <= 16:
		return "9-16"
	case n <= 64:
		return "17-64"
	case n <= 254:
		return "65-254"
	}
	return "255"
}

// kindSet abstracts a mutation sequence to its set of kinds (at most 3 named).
func kindSet(k string) string {
	seen := map[string]bool{}
	var out []string
	for _, x := range strings.Split(k, ",") {
		if x != "" && !seen[x] {
			seen[x] = true
			out = append(out, x)
		}
	}
	if len(out) > 3 {
		return "many"
	}
	sortStrings(out)
	return strings.Join(out, "+")
}

func sortStrings(a []string) {
	for i := 1; i < len(a); i++ {
		for j := i; j > 0 && a[j] < a[j-1]; j-- {
			a[j], a[j-1] = a[j-1], a[j]
		}
	}
}
