package main

import (
	"bytes"
	"encoding/json"
	"flag"
	"fmt"
	"os"
	"os/exec"
	"path/filepath"
	"runtime"
	"sort"
	"strconv"
	"strings"
	"time"
)

func usage() {
	fmt.Fprintln(os.Stderr, `usage:
  fitsim check -prop Cxx -tier quick|thorough [-seed N] [-workers N]
  fitsim replay <scenario.json>
  fitsim exec <scenario.json>        (fresh-process execution; prints results JSON)
  fitsim snapshot                    (prints the live profile table as JSON)
  fitsim selftest [-prop Cxx]        (determinism matrix)
  fitsim worker ...                  (internal)`)
	os.Exit(2)
}

func envSeed() uint64 {
	if s := os.Getenv("VERIF_SEED"); s != "" {
		if v, err := strconv.ParseUint(s, 10, 64); err == nil {
			return v
		}
	}
	return 1
}

func main() {
	if len(os.Args) < 2 {
		usage()
	}
	switch os.Args[1] {
	case "snapshot":
		p := liveProfile()
		b, _ := json.Marshal(p)
		os.Stdout.Write(b)
		return
	}
	loadProfile()
	switch os.Args[1] {
	case "check":
		cmdCheck(os.Args[2:])
	case "worker":
		cmdWorker(os.Args[2:])
	case "replay":
		cmdReplay(os.Args[2:])
	case "exec":
		cmdExec(os.Args[2:])
	case "checkone":
		cmdCheckOne(os.Args[2:])
	case "selftest":
		cmdSelftest(os.Args[2:])
	case "gen":
		cmdGen(os.Args[2:])
	default:
		usage()
	}
}

func getProp(id string) Prop {
	p, ok := props[id]
	if !ok {
		fatalInfra("unknown property %q (have %v)", id, propIDs())
	}
	return p
}

func cmdWorker(args []string) {
	fs := flag.NewFlagSet("worker", flag.ExitOnError)
	prop := fs.String("prop", "", "")
	tier := fs.String("tier", "quick", "")
	seed := fs.Uint64("seed", 1, "")
	w := fs.Int("w", 0, "")
	nw := fs.Int("nw", 1, "")
	from := fs.Int("from", 0, "")
	to := fs.Int("to", -1, "")
	out := fs.String("out", "", "")
	careful := fs.String("careful", "", "")
	fs.Parse(args)
	runWorker(getProp(*prop), *seed, *tier, *w, *nw, *from, *to, *out, *careful)
}

// cmdGen prints scenario idx of a property (debugging aid).
func cmdGen(args []string) {
	fs := flag.NewFlagSet("gen", flag.ExitOnError)
	prop := fs.String("prop", "", "")
	tier := fs.String("tier", "quick", "")
	seed := fs.Uint64("seed", envSeed(), "")
	idx := fs.Int("i", 0, "")
	fs.Parse(args)
	p := getProp(*prop)
	n := p.Prepare(*seed, *tier)
	fmt.Fprintf(os.Stderr, "%d scenarios\n", n)
	sc := p.Gen(*idx)
	if sc == nil {
		fmt.Println("null")
		return
	}
	os.Stdout.Write(sc.JSON())
	fmt.Println()
}

func cmdExec(args []string) {
	if len(args) < 1 {
		usage()
	}
	sc := loadScenario(args[0])
	var res []*Result
	if sc.Engine == "conc" {
		res = runScenarioConc(sc)
	} else {
		res = runScenarioSeq(sc)
	}
	eo := execOutput{Results: res}
	if sc.Engine == "conc" {
		c := lastConc
		eo.Conc = &c
	}
	b, _ := json.Marshal(eo)
	os.Stdout.Write(b)
}

// freshProcess is set in a `checkone` child: the scenario's calls are the first
// ones this process makes, so nothing an earlier call left behind can explain
// a wrong value.
var freshProcess bool

// cmdCheckOne evaluates one scenario with its property's oracle in this (fresh)
// process and prints the violations as JSON.
func cmdCheckOne(args []string) {
	if len(args) < 1 {
		usage()
	}
	freshProcess = true
	sc := loadScenario(args[0])
	p := getProp(sc.Property)
	p.Prepare(sc.Seed, "replay")
	st := newStats()
	vs := p.Check(sc, st)
	b, _ := json.Marshal(vs)
	os.Stdout.Write(b)
}

// checkInFreshProcess runs the oracle of sc in a fresh OS process.
func checkInFreshProcess(sc *Scenario) ([]Violation, string) {
	f, err := os.CreateTemp(scratchDir(), "one-*.json")
	if err != nil {
		fatalInfra("scratch: %v", err)
	}
	f.Write(sc.JSON())
	f.Close()
	defer os.Remove(f.Name())
	cmd := exec.Command(selfExe(), "checkone", f.Name())
	cmd.Env = append(os.Environ(), "GOMAXPROCS=1")
	var so, se bytes.Buffer
	cmd.Stdout, cmd.Stderr = &so, &se
	if err := cmd.Start(); err != nil {
		fatalInfra("start checkone: %v", err)
	}
	done := make(chan error, 1)
	go func() { done <- cmd.Wait() }()
	select {
	case err = <-done:
	case <-time.After(120 * time.Second):
		cmd.Process.Kill()
		<-done
		return nil, "timeout: no verdict within 120 s"
	}
	if err != nil {
		return nil, fmt.Sprintf("checkone: %v: %s", err, firstLine(se.String()))
	}
	var vs []Violation
	if err := json.Unmarshal(so.Bytes(), &vs); err != nil {
		return nil, "checkone: unreadable verdict"
	}
	return vs, ""
}

func cmdReplay(args []string) {
	if len(args) < 1 {
		usage()
	}
	sc := loadScenario(args[0])
	p := getProp(sc.Property)
	if sc.Prefix != nil {
		// re-execute the worker share that preceded the scenario, in this fresh process
		n := p.Prepare(sc.Seed, sc.Prefix.Tier)
		pst := newStats()
		for i := 0; i < sc.Prefix.Upto && i < n; i++ {
			if i%sc.Prefix.NW != sc.Prefix.W {
				continue
			}
			if ps := p.Gen(i); ps != nil {
				p.Check(ps, pst)
			}
		}
		fmt.Printf("replayed %d preceding scenarios of the same worker process first\n", pst.Scenarios+pst.Evaluations)
	} else {
		p.Prepare(sc.Seed, "replay")
	}
	st := newStats()
	// a loop that never reaches a seam would hang the replay too: same 60 s rule as the workers
	finished := make(chan struct{})
	go func() {
		select {
		case <-finished:
		case <-time.After(60 * time.Second):
			fmt.Printf("violation class=%s/hang-without-seam detail=no progress for 60 s inside the scenario\n", sc.Property)
			fmt.Printf("VIOLATION property=%s replay=%s\n", sc.Property, args[0])
			os.Exit(1)
		}
	}()
	vs := p.Check(sc, st)
	close(finished)
	kf := loadKnown()
	want := ""
	if sc.Expect != nil {
		want = sc.Expect.Class
	}
	hit := false
	for _, v := range vs {
		fmt.Printf("violation class=%s signature=%s detail=%s\n", v.Class, v.Signature, v.Detail)
		if k := kf.match(v); k != nil {
			fmt.Printf("KNOWN-FINDING: property=%s %s\n", v.Property, k.What)
			continue
		}
		if want == "" || v.Class == want {
			hit = true
		}
	}
	if hit {
		fmt.Printf("VIOLATION property=%s replay=%s\n", sc.Property, args[0])
		os.Exit(1)
	}
	if len(vs) > 0 && want != "" {
		fmt.Println("NOT-REPRODUCED (other classes only)")
	} else {
		fmt.Println("NOT-REPRODUCED")
	}
	os.Exit(3)
}

type tierPlan struct {
	seeds int
	cap   int
}

func planFor(p Prop, tier string) tierPlan {
	if tier == "thorough" {
		// two PRNG values by default (the whole thorough tier of the 15 checks then
		// fits in about three hours on 16 cores); `-seeds N` goes deeper
		seeds := 2
		if p.ID() == "C11" {
			seeds = 1
		}
		return tierPlan{seeds: seeds, cap: 3 * 3600}
	}
	return tierPlan{seeds: 1, cap: 1500}
}

func cmdCheck(args []string) {
	fs := flag.NewFlagSet("check", flag.ExitOnError)
	propID := fs.String("prop", "", "")
	tier := fs.String("tier", "quick", "")
	seed := fs.Uint64("seed", envSeed(), "")
	workers := fs.Int("workers", runtime.NumCPU(), "")
	nseeds := fs.Int("seeds", 0, "")
	fs.Parse(args)
	if t := os.Getenv("VERIF_TIER"); t != "" && *tier == "" {
		*tier = t
	}
	p := getProp(*propID)
	plan := planFor(p, *tier)
	if *nseeds > 0 {
		plan.seeds = *nseeds
	}
	os.MkdirAll(filepath.Join(verifRoot(), ".build"), 0o755)
	os.MkdirAll(filepath.Join(outRoot(), "replays"), 0o755)
	os.MkdirAll(filepath.Join(outRoot(), "evidence"), 0o755)
	start := time.Now()
	fmt.Printf("fitsim check property=%s tier=%s VERIF_SEED=%d seeds=%d workers=%d profile=%s\n", p.ID(), *tier, *seed, plan.seeds, *workers, profNote)

	total := newStats()
	var viols []foundViolation
	classCount := map[string]int{}
	var seeds []uint64
	scen := 0
	for k := 0; k < plan.seeds; k++ {
		s := *seed + uint64(k)
		seeds = append(seeds, s)
		bt := *tier
		if k > 0 {
			bt += "+" // later seeds skip the seed-independent enumerated families
		}
		oc := runBatch(p, s, bt, *workers, plan.cap)
		total.merge(oc.stats)
		if len(total.Samples) < 3 {
			total.Samples = append(total.Samples, oc.stats.Samples...)
		}
		viols = append(viols, oc.violations...)
		for c, n := range oc.classCount {
			classCount[c] += n
		}
		scen += oc.n
		fmt.Printf("  seed %d: %d scenarios, %d executions, %.1f s, %d violation classes\n", s, oc.stats.Scenarios, oc.stats.Evaluations, oc.wall, len(oc.classCount))
	}

	// classify
	kf := loadKnown()
	knownMet := map[string]int{}
	type pending struct {
		fv    foundViolation
		count int
	}
	var pend []pending
	seenClass := map[string]bool{}
	for _, fv := range viols {
		ck := fv.V.Class + "|" + fv.V.Signature
		if seenClass[ck] {
			continue
		}
		seenClass[ck] = true
		if k := kf.match(fv.V); k != nil {
			knownMet[k.ID] += classCount[ck]
			continue
		}
		pend = append(pend, pending{fv, classCount[ck]})
	}
	var kids []string
	for id := range knownMet {
		kids = append(kids, id)
	}
	sort.Strings(kids)
	for _, id := range kids {
		for _, k := range kf.Findings {
			if k.ID == id {
				fmt.Printf("KNOWN-FINDING: property=%s %s [%s, met %d times]\n", k.Property, k.What, k.ID, knownMet[id])
			}
		}
	}
	exit := 0
	var vlines []string
	if len(pend) > 12 {
		fmt.Printf("%d further violation classes not written out (first 12 are)\n", len(pend)-12)
		pend = pend[:12]
	}
	// determinism recheck on a sample. A mismatch with no violation found cannot be
	// trusted as "held" and exits 2; with violations found they are reported (the
	// tree under test, not the harness, is what the selftest shows to be the
	// nondeterministic party).
	det, detOK := determinismRecheck(p, *seed, *tier)
	if !detOK {
		if len(pend) == 0 {
			fatalInfra("%s", det)
		}
		fmt.Println("note:", det)
	}
	for i, pv := range pend {
		var sc Scenario
		json.Unmarshal(pv.fv.Scenario, &sc)
		min := &sc
		alone := true
		if (p.Engine() == "rx" || p.Engine() == "pipe") && !unminimisable(pv.fv.V.Class) {
			alone = reproducesAlone(&sc, pv.fv.V.Class)
		}
		if !alone {
			// state left behind by earlier scenarios of the same worker process is
			// part of what it takes: the replay file names that share
			sc.Prefix = &PrefixSpec{Tier: pv.fv.Tier, W: pv.fv.W, NW: pv.fv.NW, Upto: pv.fv.Index}
			pv.fv.V.Detail += " [only after the scenarios executed earlier in the same process; replay re-executes them]"
		} else if i < 4 && !unminimisable(pv.fv.V.Class) {
			min = minimise(p, &sc, pv.fv.V.Class, pv.fv.V.Signature)
		}
		min.Expect = &Expect{Class: pv.fv.V.Class}
		min.Repo = repoDescribe()
		min.Profile = profNote
		name := fmt.Sprintf("%s-s%d-i%d-%d.json", p.ID(), sc.Seed, sc.Index, i)
		path := filepath.Join(outRoot(), "replays", name)
		b, _ := json.MarshalIndent(min, "", " ")
		os.WriteFile(path, b, 0o644)
		fmt.Printf("violation class=%s signature=%q count=%d detail=%s\n", pv.fv.V.Class, pv.fv.V.Signature, pv.count, pv.fv.V.Detail)
		line := fmt.Sprintf("VIOLATION property=%s replay=%s", p.ID(), path)
		fmt.Println(line)
		vlines = append(vlines, line)
		exit = 1
	}
	wall := time.Since(start).Seconds()
	writeEvidence(p, *tier, *seed, seeds, total, wall, len(pend), knownMet, det, scen)
	fmt.Printf("done: %d scenarios, %d executions, %d distinct non-trivial keys, %.1f s, exit %d\n", total.Scenarios, total.Evaluations, len(total.keys), wall, exit)
	os.Exit(exit)
}

func repoDescribe() string {
	out, err := exec.Command("git", "-C", repoRoot, "describe", "--always", "--dirty").Output()
	if err != nil {
		return "unknown"
	}
	return strings.TrimSpace(string(out))
}

// determinismRecheck executes a sample of the batch twice in fresh worker
// processes at different GOMAXPROCS and compares the complete trace hash.
func determinismRecheck(p Prop, seed uint64, tier string) (string, bool) {
	n := p.Prepare(seed, tier)
	k := 120
	if p.Engine() == "hist" || p.Engine() == "conc" {
		k = 12
	}
	if k > n {
		k = n
	}
	dir, err := os.MkdirTemp(filepath.Join(verifRoot(), ".build"), "det-")
	if err != nil {
		fatalInfra("tmp dir: %v", err)
	}
	defer os.RemoveAll(dir)
	var hashes []uint64
	for i, gmp := range []string{"1", "16"} {
		out := filepath.Join(dir, fmt.Sprintf("d%d.json", i))
		// spread the sample over the index space
		cmd := exec.Command(selfExe(), "worker", "-prop", p.ID(), "-tier", tier, "-seed", strconv.FormatUint(seed, 10),
			"-w", "0", "-nw", strconv.Itoa(maxInt(1, n/k)), "-out", out)
		cmd.Env = append(os.Environ(), "GOMAXPROCS="+gmp)
		cmd.Stderr = os.Stderr
		if err := cmd.Run(); err != nil {
			fatalInfra("determinism recheck worker: %v", err)
		}
		b, err := os.ReadFile(out)
		if err != nil {
			fatalInfra("determinism recheck: %v", err)
		}
		var r workerResult
		json.Unmarshal(b, &r)
		hashes = append(hashes, r.TraceHash^uint64(r.Stats.Evaluations))
	}
	if hashes[0] != hashes[1] {
		return fmt.Sprintf("determinism recheck FAILED for %s: trace hash %x (GOMAXPROCS=1) vs %x (GOMAXPROCS=16)", p.ID(), hashes[0], hashes[1]), false
	}
	return fmt.Sprintf("sample of ~%d scenarios executed twice in fresh processes (GOMAXPROCS 1 and 16): trace hash %016x both times", k, hashes[0]), true
}

// reproducesAlone executes one scenario in a fresh process and reports whether
// the violation class shows there.
func reproducesAlone(sc *Scenario, class string) bool {
	f, err := os.CreateTemp(scratchDir(), "alone-*.json")
	if err != nil {
		return true
	}
	c := sc.Clone()
	c.Expect = &Expect{Class: class}
	f.Write(c.JSON())
	f.Close()
	defer os.Remove(f.Name())
	cmd := exec.Command(selfExe(), "replay", f.Name())
	if err := cmd.Start(); err != nil {
		return true
	}
	done := make(chan error, 1)
	go func() { done <- cmd.Wait() }()
	select {
	case err = <-done:
	case <-time.After(150 * time.Second):
		cmd.Process.Kill()
		<-done
		return true // it hangs on its own: that is the reproduction
	}
	if ee, ok := err.(*exec.ExitError); ok {
		return ee.ExitCode() == 1
	}
	return err == nil
}

// unminimisable reports classes whose scenario must not be re-executed inside
// the parent process (it would hang or die with it).
func unminimisable(class string) bool {
	return strings.HasSuffix(class, "/hang-without-seam") || strings.HasSuffix(class, "/process-death")
}

func maxInt(a, b int) int {
	if a > b {
		return a
	}
	return b
}

func cmdSelftest(args []string) {
	fs := flag.NewFlagSet("selftest", flag.ExitOnError)
	propID := fs.String("prop", "", "")
	nseeds := fs.Int("seeds", 40, "")
	fs.Parse(args)
	ids := propIDs()
	if *propID != "" {
		ids = []string{*propID}
	}
	dir, _ := os.MkdirTemp(filepath.Join(verifRoot(), ".build"), "self-")
	defer os.RemoveAll(dir)
	bad := 0
	for _, id := range ids {
		p := getProp(id)
		n := p.Prepare(1, "quick")
		k := 60
		if p.Engine() == "hist" || p.Engine() == "conc" {
			k = 6
		}
		mism := 0
		for s := 1; s <= *nseeds; s++ {
			var ref uint64
			first := true
			for _, gmp := range []string{"1", "4", "16"} {
				for _, nw := range []int{1, 16} {
					_ = nw
					out := filepath.Join(dir, "o.json")
					cmd := exec.Command(selfExe(), "worker", "-prop", id, "-tier", "quick", "-seed", strconv.Itoa(s),
						"-w", "0", "-nw", strconv.Itoa(maxInt(1, n/k)), "-out", out)
					cmd.Env = append(os.Environ(), "GOMAXPROCS="+gmp)
					if err := cmd.Run(); err != nil {
						fatalInfra("selftest worker: %v", err)
					}
					b, _ := os.ReadFile(out)
					var r workerResult
					json.Unmarshal(b, &r)
					h := r.TraceHash ^ uint64(r.Stats.Evaluations)
					if first {
						ref, first = h, false
					} else if h != ref {
						mism++
					}
				}
			}
		}
		fmt.Printf("selftest %s: %d seeds x 3 GOMAXPROCS x 2 runs: %d mismatches\n", id, *nseeds, mism)
		bad += mism
	}
	if bad > 0 {
		os.Exit(2)
	}
}

func firstLine(s string) string {
	if i := strings.IndexByte(s, '\n'); i >= 0 {
		return s[:i]
	}
	return s
}
