package main

import (
	"encoding/hex"
	"fmt"
)

// ---- record operations (the level at which streams are generated, minimised
// and interpreted by the decode model) ----

type DefOp struct {
	Local    byte     `json:"local"`
	Arch     string   `json:"arch"` // "le" | "be"
	Global   uint16   `json:"global"`
	Fields   [][3]int `json:"fields"`        // num,size,base
	Dev      [][3]int `json:"dev,omitempty"` // num,size,devindex
	Reserved byte     `json:"reserved,omitempty"`
}

type DataOp struct {
	Local byte   `json:"local"`
	Comp  bool   `json:"comp,omitempty"` // compressed timestamp header (local 0..3)
	Off   byte   `json:"off,omitempty"`  // 5-bit time offset
	Bytes string `json:"bytes"`          // hex payload (all fields, then developer fields)
}

type Op struct {
	Def  *DefOp  `json:"def,omitempty"`
	Data *DataOp `json:"data,omitempty"`
	Raw  string  `json:"raw,omitempty"` // raw bytes (grammar violations, on purpose)
}

type HeaderSpec struct {
	Size    int    `json:"size"` // 12 | 14
	Proto   byte   `json:"proto"`
	Profile uint16 `json:"profile"`
	HCRC    string `json:"hcrc,omitempty"`     // ok | zero | bad | val (size 14 only)
	HCRCVal uint16 `json:"hcrc_val,omitempty"` // stored CRC when hcrc == "val"
	DType   string `json:"dtype,omitempty"`    // data type bytes (default ".FIT")
}

type RecStream struct {
	Header HeaderSpec `json:"header"`
	Ops    []Op       `json:"ops"`
	FCRC   string     `json:"fcrc,omitempty"` // ok | bad
}

func (d *DefOp) be() bool { return d.Arch == "be" }

func put16(b []byte, be bool, v uint16) {
	if be {
		b[0], b[1] = byte(v>>8), byte(v)
	} else {
		b[0], b[1] = byte(v), byte(v>>8)
	}
}

func get16(b []byte, be bool) uint16 {
	if be {
		return uint16(b[0])<<8 | uint16(b[1])
	}
	return uint16(b[1])<<8 | uint16(b[0])
}

func getN(b []byte, be bool) uint64 {
	var v uint64
	if be {
		for _, x := range b {
			v = v<<8 | uint64(x)
		}
	} else {
		for i := len(b) - 1; i >= 0; i-- {
			v = v<<8 | uint64(b[i])
		}
	}
	return v
}

func putN(b []byte, be bool, v uint64) {
	n := len(b)
	for i := 0; i < n; i++ {
		x := byte(v >> (8 * uint(i)))
		if be {
			b[n-1-i] = x
		} else {
			b[i] = x
		}
	}
}

func unhex(s string) []byte {
	b, err := hex.DecodeString(s)
	if err != nil {
		fatalInfra("bad hex in scenario: %v", err)
	}
	return b
}

func (op *Op) encode() []byte {
	switch {
	case op.Def != nil:
		d := op.Def
		h := byte(0x40) | (d.Local & 0x0F)
		if len(d.Dev) > 0 {
			h |= 0x20
		}
		out := []byte{h, d.Reserved, 0}
		if d.be() {
			out[2] = 1
		}
		g := make([]byte, 2)
		put16(g, d.be(), d.Global)
		out = append(out, g...)
		out = append(out, byte(len(d.Fields)))
		for _, f := range d.Fields {
			out = append(out, byte(f[0]), byte(f[1]), byte(f[2]))
		}
		if len(d.Dev) > 0 {
			out = append(out, byte(len(d.Dev)))
			for _, f := range d.Dev {
				out = append(out, byte(f[0]), byte(f[1]), byte(f[2]))
			}
		}
		return out
	case op.Data != nil:
		d := op.Data
		var h byte
		if d.Comp {
			h = 0x80 | (d.Local&3)<<5 | (d.Off & 0x1F)
		} else {
			h = d.Local & 0x0F
		}
		return append([]byte{h}, unhex(d.Bytes)...)
	default:
		return unhex(op.Raw)
	}
}

// Build turns the record stream into a frame: header, records, file CRC, all
// CRCs by the model's own bitwise CRC.
func (rs *RecStream) Build() []byte {
	var data []byte
	for i := range rs.Ops {
		data = append(data, rs.Ops[i].encode()...)
	}
	return frameBytes(rs.Header, data, rs.FCRC)
}

func frameBytes(hs HeaderSpec, data []byte, fcrc string) []byte {
	size := hs.Size
	if size != 14 {
		size = 12
	}
	h := make([]byte, 12, 14)
	h[0] = byte(size)
	h[1] = hs.Proto
	put16(h[2:4], false, hs.Profile)
	putN(h[4:8], false, uint64(len(data)))
	copy(h[8:12], ".FIT")
	if len(hs.DType) == 4 {
		copy(h[8:12], hs.DType)
	}
	if size == 14 {
		c := crc16(h[:12])
		switch hs.HCRC {
		case "zero":
			c = 0
		case "bad":
			c ^= 0x0100
			if c == 0 {
				c = 0x0101
			}
		case "val":
			c = hs.HCRCVal
		}
		h = append(h, byte(c), byte(c>>8))
	}
	out := append(h, data...)
	c := crc16(out)
	if fcrc == "bad" {
		c ^= 0x0001
	}
	return append(out, byte(c), byte(c>>8))
}

// ---- strict parser (independent of reader.go) ----

type RecInfo struct {
	Kind     string // "def" | "data" | "cdata"
	Local    byte
	Start    int // absolute offset of the record header byte
	End      int // absolute offset one past the record's last byte
	Global   uint16
	Def      *DefOp // definition in force (for data) or defined (for def)
	Off      byte
	FieldOff []int // absolute start offset of each field payload (data records), then dev fields
}

type Frame struct {
	Start      int
	HeaderSize int
	Proto      byte
	Profile    uint16
	DataSize   int
	HCRC       uint16
	HasHCRC    bool
	End        int // Start + HeaderSize + DataSize + 2
	FileCRC    uint16
	Records    []RecInfo
	Problems   []string // grammar violations found (empty = well formed)
}

func (f *Frame) bad(format string, a ...interface{}) {
	f.Problems = append(f.Problems, fmt.Sprintf(format, a...))
}

// parseFrame parses one frame starting at b[start]. It returns nil if not even
// a header can be read. All grammar rules of C05 are checked and reported in
// Problems; parsing continues as far as it can.
func parseFrame(b []byte, start int) *Frame {
	if start+12 > len(b) {
		return nil
	}
	f := &Frame{Start: start}
	h := b[start:]
	f.HeaderSize = int(h[0])
	if f.HeaderSize != 12 && f.HeaderSize != 14 {
		f.bad("header size %d", f.HeaderSize)
		return f
	}
	if start+f.HeaderSize > len(b) {
		f.bad("short header")
		return f
	}
	f.Proto = h[1]
	f.Profile = get16(h[2:4], false)
	f.DataSize = int(getN(h[4:8], false))
	if string(h[8:12]) != ".FIT" {
		f.bad("data type %q", string(h[8:12]))
	}
	if f.HeaderSize == 14 {
		f.HasHCRC = true
		f.HCRC = get16(h[12:14], false)
		if f.HCRC != 0 && f.HCRC != crc16(h[:12]) {
			f.bad("header crc stored %#04x computed %#04x", f.HCRC, crc16(h[:12]))
		}
	}
	f.End = start + f.HeaderSize + f.DataSize + 2
	if f.End > len(b) {
		f.bad("frame end %d beyond stream %d", f.End, len(b))
		return f
	}
	f.FileCRC = get16(b[f.End-2:f.End], false)
	if c := crc16(b[start : f.End-2]); c != f.FileCRC {
		f.bad("file crc stored %#04x computed %#04x", f.FileCRC, c)
	}
	var defs [16]*DefOp
	p := start + f.HeaderSize
	dend := f.End - 2
	for p < dend {
		hb := b[p]
		rec := RecInfo{Start: p}
		switch {
		case hb&0x80 != 0 || hb&0x40 == 0:
			if hb&0x80 != 0 {
				rec.Kind = "cdata"
				rec.Local = (hb >> 5) & 3
				rec.Off = hb & 0x1F
			} else {
				rec.Kind = "data"
				rec.Local = hb & 0x0F
				if hb&0x30 != 0 {
					f.bad("reserved bits set in data header %#02x at %d", hb, p)
				}
			}
			d := defs[rec.Local]
			if d == nil {
				f.bad("data record at %d for undefined local type %d", p, rec.Local)
				return f
			}
			rec.Def = d
			rec.Global = d.Global
			q := p + 1
			for _, fd := range d.Fields {
				rec.FieldOff = append(rec.FieldOff, q)
				q += fd[1]
			}
			for _, fd := range d.Dev {
				rec.FieldOff = append(rec.FieldOff, q)
				q += fd[1]
			}
			if q > dend {
				f.bad("data record at %d runs past data area", p)
				return f
			}
			rec.End = q
		default: // definition
			rec.Kind = "def"
			rec.Local = hb & 0x0F
			if p+6 > dend {
				f.bad("definition at %d truncated", p)
				return f
			}
			d := &DefOp{Local: rec.Local, Reserved: b[p+1]}
			switch b[p+2] {
			case 0:
				d.Arch = "le"
			case 1:
				d.Arch = "be"
			default:
				f.bad("architecture byte %d at %d", b[p+2], p+2)
				return f
			}
			d.Global = get16(b[p+3:p+5], d.be())
			n := int(b[p+5])
			q := p + 6
			if q+3*n > dend {
				f.bad("definition at %d truncated in fields", p)
				return f
			}
			for i := 0; i < n; i++ {
				fd := [3]int{int(b[q]), int(b[q+1]), int(b[q+2])}
				bi := baseOf(byte(fd[2]))
				if bi == nil {
					f.bad("definition at %d field %d: unknown base type %#02x", p, fd[0], fd[2])
				} else if !bi.String && fd[1]%bi.Size != 0 {
					f.bad("definition at %d field %d: size %d not a multiple of base size %d", p, fd[0], fd[1], bi.Size)
				}
				d.Fields = append(d.Fields, fd)
				q += 3
			}
			if hb&0x20 != 0 {
				if q+1 > dend {
					f.bad("definition at %d truncated in dev count", p)
					return f
				}
				nd := int(b[q])
				q++
				if q+3*nd > dend {
					f.bad("definition at %d truncated in dev fields", p)
					return f
				}
				for i := 0; i < nd; i++ {
					d.Dev = append(d.Dev, [3]int{int(b[q]), int(b[q+1]), int(b[q+2])})
					q += 3
				}
			}
			rec.Def = d
			rec.Global = d.Global
			rec.End = q
			defs[rec.Local] = d
		}
		f.Records = append(f.Records, rec)
		p = rec.End
	}
	if p != dend {
		f.bad("records end at %d, data area ends at %d", p, dend)
	}
	return f
}

// parseChain parses consecutive frames until the bytes run out or a frame is
// unusable; rest is the offset where parsing stopped.
func parseChain(b []byte) (frames []*Frame, rest int) {
	p := 0
	for p < len(b) {
		f := parseFrame(b, p)
		if f == nil || f.End > len(b) || f.End <= p || (f.HeaderSize != 12 && f.HeaderSize != 14) {
			break
		}
		frames = append(frames, f)
		p = f.End
	}
	return frames, p
}

// opsFromFrame turns a parsed frame back into record operations (used to lift
// corpus files and Encode output to the operation level).
func opsFromFrame(b []byte, f *Frame) []Op {
	var ops []Op
	for _, r := range f.Records {
		switch r.Kind {
		case "def":
			d := *r.Def
			ops = append(ops, Op{Def: &d})
		case "data":
			ops = append(ops, Op{Data: &DataOp{Local: r.Local, Bytes: hex.EncodeToString(b[r.Start+1 : r.End])}})
		case "cdata":
			ops = append(ops, Op{Data: &DataOp{Local: r.Local, Comp: true, Off: r.Off, Bytes: hex.EncodeToString(b[r.Start+1 : r.End])}})
		}
	}
	return ops
}
