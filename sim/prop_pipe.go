package main

import (
	"fmt"
	"strconv"
	"strings"
)

// Engine pipe: C05 (Encode emits a well-formed stream) and C06 (Encode then
// Decode returns what was put in).

// ---- helpers shared by C05 and C06 ----

// inDomainValue reports whether a canonical value of profile field pf lies in
// the representable domain of the statement of C06.
func inDomainValue(pf *PField, v string) bool {
	bi := baseOf(pf.Base)
	switch {
	case pf.Kind != kindNative:
		return true // generators only produce in-range times and coordinates
	case bi.String:
		if pf.Array {
			return false
		}
		s, err := strconv.Unquote(v[1:])
		return err == nil && len(s) <= int(pf.Length)-1
	case pf.Array:
		if strings.HasPrefix(v, "b") {
			return (len(v)-1)/2 <= int(pf.Length)
		}
		return len(strings.Fields(strings.Trim(v, "[]"))) <= int(pf.Length)
	}
	return true
}

func pfBySIndex(g uint16, si int) *PField {
	for _, pf := range prof.byMesg[g] {
		if pf.SIndex == si {
			return pf
		}
	}
	return nil
}

// modelMsgsOfFile turns a ModelFile into model messages (what a decode of its
// encoding must yield), in the per-type order of the File.
func modelMsgsOfFile(mf *ModelFile) []ModelMsg {
	var out []ModelMsg
	conv := func(g uint16, fields map[int]string) ModelMsg {
		m := ModelMsg{Global: g, Fields: map[int]string{}, DontCare: map[int]bool{}, FD: map[int][3]int{}, Raw: map[int][]byte{}}
		for si, v := range fields {
			pf := pfBySIndex(g, si)
			if pf == nil {
				continue
			}
			if !inDomainValue(pf, v) {
				m.DontCare[si] = true
				continue
			}
			if strings.HasPrefix(v, "t") {
				v = strings.TrimSuffix(v, "D") // "D": same instant and offset, carried by a DST-aware location
			}
			if pf.Kind == kindLocal {
				// compared by wall-clock reading
				body := v[1:]
				i := strings.LastIndexByte(body, '+')
				unix, _ := strconv.ParseInt(body[:i], 10, 64)
				off, _ := strconv.ParseInt(body[i+1:], 10, 64)
				v = "w" + strconv.FormatInt(unix+off, 10)
			}
			m.Fields[si] = v
			m.FD[si] = [3]int{int(pf.Num), 0, int(pf.Base)}
		}
		return m
	}
	id := map[int]string{0: "u" + strconv.Itoa(int(mf.Type))}
	for si, v := range mf.FileId {
		if si != 0 {
			id[si] = v
		}
	}
	out = append(out, conv(0, id))
	for _, mm := range mf.Msgs {
		out = append(out, conv(mm.Global, mm.Fields))
	}
	return out
}

// ---- C05 ----

type propC05 struct {
	seed  uint64
	tier  string
	count int
}

func init() { register(&propC05{}); register(&propC06{}) }

func (p *propC05) ID() string     { return "C05" }
func (p *propC05) Engine() string { return "pipe" }
func (p *propC05) Level() string  { return "exploration" }
func (p *propC05) Rule() string {
	return "scenario = a model File built through the public API (NewHeader, NewFile, typed accessors, New<X>Msg constructors, exported fields): all 17 file types, each hosted message type present 0..N times, per message a seeded subset of fields set (so the definition is a union over messages with different subsets), values in-domain for 7/8 of the fields and out-of-domain for 1/8 (over-long arrays and strings), both byte orders, headers with and without CRC, protocol V10/V20, stale garbage in Header.DataSize/CRC and File.CRC; encoded by the real Encode into a SimWriter; the captured bytes are parsed by the independent wire parser. " +
		"key = (file type, message, field-subset class, byte order, header kind); non-trivial when >= 2 messages of a type had different field subsets"
}
func (p *propC05) Assumptions() []string {
	return []string{
		"grammar = the wire parser of DESIGN 2.5 (header size/data size/data type, both CRCs by an independent bitwise CRC-16, local types defined before use, record length = sum of field sizes, sizes multiples of the base size, architecture byte)",
		"wire values are compared for in-domain fields only; out-of-domain Files may make Encode fail, in-domain Files must not",
		"accumulating component sources are kept out (D11)",
	}
}
func (p *propC05) ProbeNames() []string {
	return []string{"union definition wider than every single message", "array padded", "out-of-domain value encoded", "stale Header.CRC overwritten", "header with CRC", "big endian", "preceded by a failed Encode", "re-encoded after a header change"}
}

func (p *propC05) Prepare(seed uint64, tier string) int {
	p.seed, p.tier = seed, tier
	p.count = 500000
	if isThorough(tier) {
		p.count = 8000000
	}
	return p.count
}

func (p *propC05) Gen(idx int) *Scenario {
	r := NewRng(p.seed, "C05", idx)
	ft := supportedFileTypes[idx%len(supportedFileTypes)]
	mf := genModelFile(r, MFOpts{InDomain: r.Chance(1, 2), FT: ft, MaxMsgs: r.Range(1, 20), MaxFields: r.Range(1, 12)})
	if idx%211 == 3 {
		growSlice(r, mf, MFOpts{InDomain: true, MaxFields: 6}) // > 64 KiB of records, > 512 messages of one kind
	}
	arch := "le"
	if (idx/len(supportedFileTypes))%2 == 1 {
		arch = "be"
	}
	sc := &Scenario{V: 1, Property: "C05", Engine: "pipe", Seed: p.seed, Index: idx,
		Tasks: []Task{{ID: 0, Call: "Encode", File: mf, Arch: arch}}}
	switch idx % 16 {
	case 7:
		sc.Tasks[0].Sink = "buffer" // a *bytes.Buffer instead of the simulated writer
	case 11, 15:
		sc.Tasks[0].Sink = "buffer+" // one that already holds bytes: Encode appends
	}
	if r.Chance(1, 8) {
		// a failing Encode first (sink that fails at its n-th Write, or a File with a
		// string that is not UTF-8): whatever it leaves behind must not reach the
		// next call's output
		pre := Task{ID: 1, Call: "Encode", Arch: arch}
		if r.Bool() {
			pre.File = genModelFile(r, MFOpts{InDomain: true, FT: ft, MaxMsgs: 4, MaxFields: 6})
			pre.WriteFail = r.Range(1, 3)
		} else {
			bad := genModelFile(r, MFOpts{InDomain: true, FT: 4, MaxMsgs: 3, MaxFields: 5})
			if pf := fieldByName(12, "Name"); pf != nil {
				bad.Msgs = append(bad.Msgs, MMsg{Global: 12, Fields: map[int]string{pf.SIndex: `s"caf\xe9 \xff"`}})
			}
			pre.File = bad
		}
		sc.Tasks = append(sc.Tasks, pre)
		sc.Family = "after-failed-encode"
	} else if r.Chance(1, 10) {
		// the same File encoded twice, its header's protocol version changed in between
		// (a header that already carries a data size and a CRC is re-used)
		np := byte(0x10)
		if mf.Proto == 0x10 {
			np = 0x20
		}
		sc.Tasks[0].Repeat = 2
		sc.Tasks[0].Between = "proto:" + itoa(int(np))
		sc.Family = "re-encode-after-header-change"
	}
	return sc
}

// fileOutOfDomain reports whether any set field of the model File is out of domain.
func fileOutOfDomain(mf *ModelFile) bool {
	chk := func(g uint16, fields map[int]string) bool {
		for si, v := range fields {
			if pf := pfBySIndex(g, si); pf != nil && !inDomainValue(pf, v) {
				return true
			}
		}
		return false
	}
	if chk(0, mf.FileId) {
		return true
	}
	for _, m := range mf.Msgs {
		if chk(m.Global, m.Fields) {
			return true
		}
	}
	return false
}

func (p *propC05) Check(sc *Scenario, st *Stats) []Violation {
	var vs []Violation
	bad := func(class, format string, a ...interface{}) {
		vs = append(vs, Violation{Property: "C05", Class: "C05/" + class, Detail: fmt.Sprintf(format, a...)})
	}
	if len(sc.Tasks) == 0 || sc.Tasks[0].File == nil {
		return nil
	}
	t := &sc.Tasks[0]
	mf := t.File
	if !isSupportedFileType(mf.Type) {
		return nil
	}
	if len(sc.Tasks) > 1 && sc.Tasks[1].Call == "Encode" && sc.Tasks[1].File != nil {
		pre := runTask(&sc.Tasks[1], nil, nil, nil)
		st.Observe(pre)
		if pre.Panic != "" {
			bad("panic", "Encode panicked: %s", pre.Panic)
			return vs
		}
		st.ProbeIf(pre.ErrClass != "nil", "preceded by a failed Encode")
	}
	r := runTask(t, nil, nil, nil)
	st.Observe(r)
	if r.BuildErr != "" {
		return nil
	}
	if r.Panic != "" {
		bad("panic", "Encode panicked: %s", r.Panic)
		return vs
	}
	ood := fileOutOfDomain(mf)
	if r.ErrClass != "nil" {
		if !ood {
			bad("in-domain-file-rejected", "Encode failed on an in-domain File: %s", r.Err)
		} else {
			st.Probe("Encode failed on out-of-domain File")
		}
		return vs
	}
	st.ProbeIf(ood, "out-of-domain value encoded")
	st.ProbeIf(mf.HdrCRC, "header with CRC")
	st.ProbeIf(t.Arch == "be", "big endian")
	out := r.Out
	f := parseFrame(out, 0)
	if f == nil {
		bad("grammar/no-header", "output of %d bytes has no header", len(out))
		return vs
	}
	for _, pr := range f.Problems {
		rule := pr
		if i := strings.IndexAny(pr, "0123456789"); i > 0 {
			rule = strings.TrimSpace(pr[:i])
		}
		bad("grammar/"+strings.ReplaceAll(rule, " ", "-"), "%s", pr)
		return vs
	}
	if f.End != len(out) {
		bad("grammar/trailing-bytes", "frame ends at %d, %d bytes written", f.End, len(out))
		return vs
	}
	wantHS := 12
	if mf.HdrCRC {
		wantHS = 14
	}
	if f.HeaderSize != wantHS {
		bad("grammar/header-size", "header size %d, File.Header.Size says %d", f.HeaderSize, wantHS)
	}
	wantProto := mf.Proto
	if strings.HasPrefix(t.Between, "proto:") && t.Repeat >= 2 {
		v := 0
		fmt.Sscan(t.Between[len("proto:"):], &v)
		wantProto = byte(v)
		st.Probe("re-encoded after a header change")
	}
	if f.Proto != wantProto {
		bad("grammar/protocol-version", "protocol version %#x written, header says %#x", f.Proto, wantProto)
	}
	if f.HasHCRC && f.HCRC == 0 && crc16(out[:12]) != 0 {
		bad("grammar/header-crc-zero", "14-byte header written with CRC 0 although its contents sum to %#04x", crc16(out[:12]))
	}
	for _, rec := range f.Records {
		if rec.Kind == "def" && rec.Def.Arch != t.Arch {
			bad("grammar/architecture", "definition at %d has architecture %s, Encode was called with %s", rec.Start, rec.Def.Arch, t.Arch)
			return vs
		}
	}
	// bookkeeping after the call
	if r.PostHdrSize != uint32(f.DataSize) {
		bad("post/header-datasize", "File.Header.DataSize=%d after Encode, %d record bytes written", r.PostHdrSize, f.DataSize)
	}
	if r.PostCRC != f.FileCRC {
		bad("post/file-crc", "File.CRC=%#04x after Encode, %#04x written", r.PostCRC, f.FileCRC)
	}
	if f.HasHCRC {
		if r.PostHdrCRC != f.HCRC {
			bad("post/header-crc", "File.Header.CRC=%#04x after Encode, %#04x written (documentation promises it is updated)", r.PostHdrCRC, f.HCRC)
		} else if mf.StaleHCRC != 0 && mf.StaleHCRC != f.HCRC {
			st.Probe("stale Header.CRC overwritten")
		}
	}
	// values on the wire
	ops := opsFromFrame(out, f)
	mo := interpret(ops)
	if mo.ErrOp >= 0 {
		bad("grammar/undefined-local-type", "%s", mo.ErrWhy)
		return vs
	}
	want := modelMsgsOfFile(mf)
	hs := hostsOf(mf.Type)
	wireBy := map[uint16][]*ModelMsg{}
	for i := range mo.Msgs {
		wireBy[mo.Msgs[i].Global] = append(wireBy[mo.Msgs[i].Global], &mo.Msgs[i])
	}
	fileBy := map[uint16][]*ModelMsg{}
	for i := range want {
		m := &want[i]
		h, ok := hs[m.Global]
		if !ok {
			continue
		}
		if !h.Slice && len(fileBy[m.Global]) == 1 {
			fileBy[m.Global][0] = m // pointer slot: last one set wins
			continue
		}
		fileBy[m.Global] = append(fileBy[m.Global], m)
	}
	var gs []uint16
	for g := range fileBy {
		gs = append(gs, g)
	}
	for g := range wireBy {
		if _, ok := fileBy[g]; !ok {
			gs = append(gs, g)
		}
	}
	sortU16(gs)
	nontrivial := false
	for _, g := range gs {
		fm, wm := fileBy[g], wireBy[g]
		if len(fm) != len(wm) {
			bad("values/message-count", "%s: %d in the File, %d data records on the wire", prof.MesgName(g), len(fm), len(wm))
			return vs
		}
		// subset classes
		subsets := map[string]bool{}
		union := map[int]bool{}
		for _, m := range fm {
			var ks []int
			for si := range m.Fields {
				ks = append(ks, si)
				union[si] = true
			}
			sortInts(ks)
			subsets[fmt.Sprint(ks)] = true
		}
		if len(subsets) >= 2 {
			nontrivial = true
			wider := true
			for _, m := range fm {
				if len(m.Fields) == len(union) {
					wider = false
				}
			}
			st.ProbeIf(wider, "union definition wider than every single message")
		}
		hk := "nocrc"
		if mf.HdrCRC {
			hk = "crc"
		}
		st.Key(mf.Type, g, len(subsets) >= 2, t.Arch, hk)
		for i := range fm {
			for _, pf := range prof.byMesg[g] {
				if fm[i].DontCare[pf.SIndex] {
					continue
				}
				fv, set := fm[i].Fields[pf.SIndex]
				raw, onWire := wm[i].Raw[pf.SIndex]
				var wv string
				switch {
				case !onWire:
					wv = invalidCanon(pf)
				case pf.Kind == kindUTC || pf.Kind == kindLocal:
					u := getN(raw, wm[i].BE)
					if len(raw) == 4 && u == 0xFFFFFFFF {
						wv = invalidCanon(pf)
					} else if pf.Kind == kindLocal {
						wv = "w" + strconv.FormatInt(fitEpochUnix+int64(u), 10)
					} else {
						wv = canonTimeVal(fitEpochUnix+int64(u), 0)
					}
				default:
					v, care := interpField(pf, byte(wm[i].FD[pf.SIndex][2]), raw, wm[i].BE, &timeModel{})
					if !care {
						bad("values/definition-not-profile-type", "%s.%s written with definition %v", prof.MesgName(g), pf.Name, wm[i].FD[pf.SIndex])
						return vs
					}
					wv = v
				}
				if !set {
					fv = invalidCanon(pf)
				}
				if onWire && baseOf(pf.Base).String && !pf.Array {
					// protocol: one NUL-terminated string, NUL padding behind it
					z := false
					for _, x := range raw {
						if x == 0 {
							z = true
						} else if z {
							bad("values/string-field-garbage-behind-terminator/"+t.Arch, "%s[%d].%s: bytes %x hold non-NUL bytes behind the terminator (an array-of-strings reading sees a second string)", prof.MesgName(g), i, pf.Name, raw)
							return vs
						}
					}
				}
				a, b := fv, wv
				if pf.Array && !baseOf(pf.Base).String {
					if onWire && set && len(raw) > 0 && stripTrailingInvalid(pf, wv) != wv {
						st.Probe("array padded")
					}
					a, b = stripTrailingInvalid(pf, a), stripTrailingInvalid(pf, b)
				}
				if a == `s""` && b == "nil" || a == "nil" && b == `s""` {
					continue
				}
				if !canonEqual(a, b) && !canonEqual(b, a) {
					cls := "values/wire-differs"
					if !set {
						cls = "values/unset-field-not-invalid-on-wire"
					}
					bad(cls+"/"+fieldKindName(pf)+"/"+t.Arch, "%s[%d].%s: File holds %s, wire carries %s", prof.MesgName(g), i, pf.Name, clip(fv), clip(wv))
					return vs
				}
				if set {
					st.Field(g, pf.Num)
				}
			}
		}
	}
	if nontrivial {
		st.Nontrivial++
	}
	return vs
}

func fieldKindName(pf *PField) string {
	pb := baseOf(pf.Base)
	switch {
	case pf.Kind == kindUTC:
		return "time"
	case pf.Kind == kindLocal:
		return "localtime"
	case pf.Kind == kindLat || pf.Kind == kindLng:
		return "coord"
	case pb.String:
		return "string"
	case pf.Array:
		return "array"
	case pb.Signed:
		return "sint"
	}
	return "uint"
}

// ---- C06 ----

type propC06 struct {
	seed  uint64
	tier  string
	count int
	pairs []ftMesg
}

func (p *propC06) ID() string     { return "C06" }
func (p *propC06) Engine() string { return "pipe" }
func (p *propC06) Level() string  { return "exploration" }
func (p *propC06) Rule() string {
	return "scenario = an in-domain model File (strings valid UTF-8 with len <= length-1, arrays <= profile length, whole-second times in range, local times with zone offsets of +-14 h, valid coordinates, set fields != invalid; boundary and random values) encoded by the real Encode (both byte orders) into a SimWriter, the captured bytes decoded by the real Decode through a seeded read plan; the scenario index cycles through every (file type, hosted message) pair; the target message gets many fields set. " +
		"key = (message, field, value kind, byte order); non-trivial when the field was set and re-read through a non-'full' plan"
}
func (p *propC06) Assumptions() []string {
	return []string{
		"arrays are compared modulo trailing invalid padding, local timestamps by wall-clock reading, component destinations per the component model (a destination that is set together with its source is a don't-care), unset fields must come back invalid",
		"accumulating component sources (record cycles / compressed_speed_distance / compressed_accumulated_power) are kept out: C18 owns them (D9-D11)",
		"arrays of strings cannot be set through any container the public API exposes",
	}
}
func (p *propC06) ProbeNames() []string {
	return []string{"local time with offset", "string at max length", "array at profile length", "component source set", "pointer slot message", "big endian", "plan not full", "encoded behind earlier bytes of a bytes.Buffer"}
}

func (p *propC06) Prepare(seed uint64, tier string) int {
	p.seed, p.tier = seed, tier
	p.pairs = nil
	for _, ft := range supportedFileTypes {
		for _, mn := range hostedMesgNums(ft) {
			if len(prof.byMesg[mn]) > 0 {
				p.pairs = append(p.pairs, ftMesg{ft, mn})
			}
		}
	}
	p.count = 600000
	if isThorough(tier) {
		p.count = 5000000
	}
	return p.count
}

func (p *propC06) Gen(idx int) *Scenario {
	r := NewRng(p.seed, "C06", idx)
	pr := p.pairs[idx%len(p.pairs)]
	mf := genModelFile(r, MFOpts{InDomain: true, FT: pr.ft, MaxMsgs: r.Range(1, 8), MaxFields: r.Range(1, 10)})
	// make sure the target message is there, with many fields
	n := r.Range(1, 3)
	if !hostsOf(pr.ft)[pr.mn].Slice {
		n = 1
	}
	for i := 0; i < n; i++ {
		o := MFOpts{InDomain: true, MaxFields: 40}
		if r.Chance(1, 4) {
			o.AllFields = true
		}
		m := MMsg{Global: pr.mn, Fields: genMsgFields(r, pr.mn, o)}
		pos := r.Intn(len(mf.Msgs) + 1)
		mf.Msgs = append(mf.Msgs[:pos], append([]MMsg{m}, mf.Msgs[pos:]...)...)
	}
	if idx%211 == 3 {
		growSlice(r, mf, MFOpts{InDomain: true, MaxFields: 6})
	}
	arch := "le"
	if (idx/len(p.pairs))%2 == 1 {
		arch = "be"
	}
	return &Scenario{V: 1, Property: "C06", Engine: "pipe", Seed: p.seed, Index: idx,
		Media: []Medium{{ID: "m0", Encode: &EncodeSpec{File: mf, Arch: arch}}},
		// sink: the simulated writer, an empty *bytes.Buffer, or one that already holds bytes
		Tasks: []Task{{ID: 0, Call: "Encode", File: mf, Arch: arch, Sink: []string{"", "", "", "", "", "buffer", "buffer+", "buffer+"}[idx%8]}, {ID: 1, Call: "Decode", In: "m0", Read: genPlan(r, false, true)}}}
}

func (p *propC06) Check(sc *Scenario, st *Stats) []Violation {
	var vs []Violation
	bad := func(class, format string, a ...interface{}) {
		vs = append(vs, Violation{Property: "C06", Class: "C06/" + class, Detail: fmt.Sprintf(format, a...)})
	}
	if len(sc.Tasks) < 2 || sc.Tasks[0].File == nil {
		return nil
	}
	mf := sc.Tasks[0].File
	if !isSupportedFileType(mf.Type) || fileOutOfDomain(mf) {
		return nil
	}
	enc := runTask(&sc.Tasks[0], nil, nil, nil)
	st.Observe(enc)
	if enc.BuildErr != "" {
		return nil
	}
	if enc.Panic != "" {
		bad("encode-panic", "Encode panicked: %s", enc.Panic)
		return vs
	}
	if enc.ErrClass != "nil" {
		bad("encode-rejects-in-domain-file", "Encode failed on an in-domain File: %s", enc.Err)
		return vs
	}
	dt := sc.Tasks[1]
	r := runTask(&dt, map[string][]byte{dt.In: enc.Out}, nil, nil)
	st.Observe(r)
	if r.Panic != "" {
		bad("decode-panic", "Decode of Encode's output panicked: %s", r.Panic)
		return vs
	}
	if r.ErrClass != "nil" {
		bad("decode-rejects-encoder-output", "Decode failed on what Encode wrote: %s", r.Err)
		return vs
	}
	if byte(r.file.Type()) != mf.Type {
		bad("file-type", "decoded file type %d, encoded %d", r.file.Type(), mf.Type)
		return vs
	}
	pc := planClass(dt.Read)
	arch := sc.Tasks[0].Arch
	st.ProbeIf(arch == "be", "big endian")
	st.ProbeIf(pc != "full", "plan not full")
	st.ProbeIf(sc.Tasks[0].Sink == "buffer+", "encoded behind earlier bytes of a bytes.Buffer")
	want := modelMsgsOfFile(mf)
	hs := hostsOf(mf.Type)
	for _, m := range want {
		h := hs[m.Global]
		st.ProbeIf(!h.Slice && !h.OnFile, "pointer slot message")
		for si, v := range m.Fields {
			pf := pfBySIndex(m.Global, si)
			if pf == nil {
				continue
			}
			if pc != "full" {
				st.Key(m.Global, pf.Num, fieldKindName(pf), arch)
			}
			switch {
			case pf.Kind == kindLocal:
				st.Probe("local time with offset")
			case baseOf(pf.Base).String && len(v)-3 >= int(pf.Length)-1:
				st.Probe("string at max length")
			case pf.Array && stripTrailingInvalid(pf, v) == v && strings.Count(v, " ")+1 == int(pf.Length):
				st.Probe("array at profile length")
			}
			if m.Global == gRecord || m.Global == gLap || m.Global == gSession || m.Global == gEvent || m.Global == gSegmentLap {
				switch pf.Name {
				case "Speed", "Altitude", "AvgSpeed", "MaxSpeed", "AvgAltitude", "MaxAltitude", "MinAltitude", "Data16", "Data":
					st.Probe("component source set")
				}
			}
		}
	}
	if pc != "full" {
		st.Nontrivial++
	}
	diffs := compareFile(r.file, mf.Type, want, compareOpts{skipAccum: true, arrayPad: true, localWall: true}, st)
	seen := map[string]bool{}
	for _, d := range diffs {
		pf := pfBySIndex(d.Global, d.SIndex)
		cls := "count"
		if pf != nil && d.Field != "<count>" && d.Field != "<slot>" {
			cls = "value/" + fieldKindName(pf) + "/" + arch
			if _, set := findModel(want, d).Fields[d.SIndex]; !set {
				cls = "unset-field-not-invalid/" + fieldKindName(pf) + "/" + arch
			}
		}
		if seen[cls] {
			continue
		}
		seen[cls] = true
		bad(cls, "%s (message %s)", d.String(), prof.MesgName(d.Global))
		if len(vs) > 3 {
			break
		}
	}
	return vs
}

// findModel locates the model message a diff refers to (same global, index among its kind).
func findModel(ms []ModelMsg, d fieldDiff) *ModelMsg {
	k := 0
	var last *ModelMsg
	for i := range ms {
		if ms[i].Global != d.Global {
			continue
		}
		last = &ms[i]
		if k == d.Index {
			return last
		}
		k++
	}
	if last != nil {
		return last
	}
	return &ModelMsg{Fields: map[int]string{}}
}
