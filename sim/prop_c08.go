package main

import (
	"bytes"
	"fmt"
	"regexp"
	"strings"

	"github.com/tormoder/fit"
)

// C08 - decoding and encoding are pure: results do not depend on call history
// (engine hist: one fresh process per history, fresh-process baselines).

type histPool struct {
	media    []Medium
	accum    map[string]bool // medium id -> carries accumulating component sources
	chainIDs []string
	singles  []string
	probes   []string // state-sensitive probe streams (subset of singles)
	files    []*ModelFile
	badFiles []*ModelFile // Encode fails on these
}

type propC08 struct {
	seed  uint64
	tier  string
	count int
	pool  *histPool
}

func init() { register(&propC08{}) }

func (p *propC08) ID() string     { return "C08" }
func (p *propC08) Engine() string { return "hist" }
func (p *propC08) Level() string  { return "exploration" }
func (p *propC08) Rule() string {
	return "scenario = a history of 2-30 calls over a pool of <= 48 inputs (corpus files incl. the component-accumulating one, model streams incl. component-bearing and unknown-item-bearing ones, chains, model Files) executed in ONE fresh OS process: Decode (8 option sets), DecodeChained, CheckIntegrity, DecodeHeader, DecodeHeaderAndFileID, Encode (LE/BE) of a File decoded earlier in the history or built by the model, Encode repeated k=16 times on the same File, Header.MarshalJSON; histories are biased to repeat an input right after itself and to put component-bearing inputs first. Every result is compared with the same call performed first in its own fresh OS process (restart fault: nothing survives). " +
		"key = (operation bigram, input class pair); non-trivial when the history repeated an input or ordered a component-bearing input before another decode"
}
func (p *propC08) Assumptions() []string {
	return []string{
		"Go map iteration order is the one source no seed controls: it is sampled by repeating Encode 16 times on Files whose definitions are unions of several fields and demanding byte-identical output",
		"canonical dumps compare exported content only (Header, CRC, FileId, FileCreator, TimestampCorrelation, Unknown*, container via accessor; times as instant + zone offset)",
		"known finding D11 (package-level accumulators) is recognised by its signature (only RecordMsg.Distance differs, by one constant per file) and reported as KNOWN-FINDING",
	}
}
func (p *propC08) ProbeNames() []string {
	return []string{"same input twice in a row", "component-bearing input preceded another decode", "Encode after Decode of another input", "Encode repeated on >= 3 union fields", "MarshalJSON twice", "Encode of an earlier result", "history length >= 10", "failed Encode followed by another Encode"}
}

func buildHistPool(seed uint64, big bool) *histPool {
	hp := &histPool{accum: map[string]bool{}}
	add := func(m Medium, acc bool) string {
		m.ID = fmt.Sprintf("m%d", len(hp.media))
		hp.media = append(hp.media, m)
		hp.accum[m.ID] = acc
		return m.ID
	}
	max := 8000
	if big {
		max = 30000
	}
	for _, e := range corpusFrames(max, true) {
		hp.singles = append(hp.singles, add(e.Med, e.Accum))
		if len(hp.singles) >= 16 {
			break
		}
	}
	for i := 0; i < 14; i++ {
		r := NewRng(seed, "C08/pool", i)
		var rs *RecStream
		acc := false
		if i%2 == 0 {
			h := c18Hosts[r.Intn(len(c18Hosts))]
			rs = genComponentStream(r, h.ft, h.mn)
			acc = hasAccumSource(rs.Build())
		} else {
			ft := supportedFileTypes[r.Intn(len(supportedFileTypes))]
			rs = genStream(r, StreamOpts{FT: ft, NData: r.Range(2, 20), Arch: 2, Narrow: true, Unknown: true, Dev: true, Compressed: true, Unhosted: true, UTF8: true, Hdr14: r.Bool()})
		}
		b := rs.Build()
		if !plainDecodeOK(b) {
			continue
		}
		hp.singles = append(hp.singles, add(Medium{Records: rs}, acc))
	}
	// nearly empty files (file_id only, or one or two messages): containers whose
	// slices were never appended to - nil, and nil again after any history
	for i := 0; i < 4; i++ {
		r := NewRng(seed, "C08/empty", i)
		ft := []byte{4, 4, 6, supportedFileTypes[r.Intn(len(supportedFileTypes))]}[i]
		rs := genStream(r, StreamOpts{FT: ft, NData: i / 2 * 2, Arch: 2, Hdr14: i%2 == 0, MaxFields: 3})
		if b := rs.Build(); plainDecodeOK(b) {
			hp.singles = append(hp.singles, add(Medium{Records: rs}, hasAccumSource(b)))
		}
	}
	// two long activity streams that visit most hosted message kinds with many of
	// their fields (per-message-kind state shared between calls or goroutines)
	for i := 0; i < 2; i++ {
		r := NewRng(seed, "C08/allkinds", i)
		rs := genStream(r, StreamOpts{FT: 4, NData: 220, Arch: 2, Unknown: false, Dev: false, Compressed: true, MaxFields: 14, BigArr: true, Hdr14: i == 0})
		if b := rs.Build(); plainDecodeOK(b) {
			hp.singles = append(hp.singles, add(Medium{Records: rs}, hasAccumSource(b)))
		}
	}
	// two different streams with more than 256 distinct definitions each (bounded
	// process-wide tables keyed by definition content)
	for i := 0; i < 2; i++ {
		hp.singles = append(hp.singles, add(Medium{Records: manyDefsStream(NewRng(seed, "C08/manydefs", i), 300+40*i)}, false))
	}
	// streams from the time / local-type / option generators (stateful decoding paths;
	// some of them end in an error by construction)
	c12, c13 := &propC12{}, &propC13{}
	c12.Prepare(seed, "quick")
	c13.Prepare(seed, "quick")
	for i := 0; i < 8; i++ {
		var sc *Scenario
		if i%2 == 0 {
			sc = c12.Gen(1000 + i)
		} else {
			sc = c13.Gen(1000 + i)
		}
		if sc != nil && len(sc.Media) > 0 && sc.Media[0].Records != nil {
			hp.singles = append(hp.singles, add(Medium{Records: sc.Media[0].Records}, hasAccumSource(sc.Media[0].Records.Build())))
		}
	}
	// malformed streams (rejected definitions, unknown base types, broken sizes): error
	// paths run too, and must leave nothing behind
	{
		c01 := &propC01{}
		c01.Prepare(seed, "replay")
		for i := 0; i < 6; i++ {
			if sc := c01.genMutation(5000 + i); sc != nil && len(sc.Media) > 0 {
				m := sc.Media[0]
				m.Tail = ""
				b := (&Scenario{Media: []Medium{m}}).buildMedia()[m.ID]
				hp.singles = append(hp.singles, add(Medium{Hex: m.Hex}, hasAccumSource(b)))
			}
		}
	}
	// state-sensitive probes (error streams included: their baseline is the same error)
	for _, rs := range stateProbeStreams(NewRng(seed, "C08/stateprobe", 0)) {
		id := add(Medium{Records: rs}, false)
		hp.singles = append(hp.singles, id)
		hp.probes = append(hp.probes, id)
	}
	// chains
	for c := 0; c < 4 && len(hp.singles) >= 2; c++ {
		r := NewRng(seed, "C08/chain", c)
		var ids []string
		acc := false
		for k := r.Range(2, 3); k > 0; k-- {
			id := hp.singles[r.Intn(len(hp.singles))]
			if b := (&Scenario{Media: hp.media}).buildMedia()[id]; !plainDecodeOK(b) {
				continue
			}
			ids = append(ids, id)
			acc = acc || hp.accum[id]
		}
		hp.chainIDs = append(hp.chainIDs, add(Medium{Chain: ids}, acc))
	}
	for i := 0; i < 8; i++ {
		r := NewRng(seed, "C08/file", i)
		hp.files = append(hp.files, genModelFile(r, MFOpts{InDomain: true, MaxMsgs: 6, MaxFields: 8}))
	}
	// sibling Files: a parent whose slice of one message kind is heterogeneous (the
	// last message sets a subset of the fields of the first), and a sibling that
	// holds one message of that kind with exactly the last message's field set -
	// anything Encode remembers per (message kind, set of valid fields) and then
	// changes while encoding the parent shows when the sibling is encoded afterwards
	for i := 0; i < 4; i++ {
		r := NewRng(seed, "C08/sibling", i)
		ft := supportedFileTypes[r.Intn(len(supportedFileTypes))]
		hs := hostsOf(ft)
		var kinds []uint16
		for mn, h := range hs {
			if h.Slice && mn != gRecord && mn != gLap && mn != gSession && mn != gSegmentLap && mn != gEvent && mn != 0 {
				n := 0
				for _, pf := range prof.byMesg[mn] {
					if pf.Kind == kindNative && !pf.Array && baseOf(pf.Base).Integer {
						n++
					}
				}
				if n >= 3 {
					kinds = append(kinds, mn)
				}
			}
		}
		if len(kinds) == 0 {
			continue
		}
		sortU16(kinds)
		k := kinds[r.Intn(len(kinds))]
		var cand []*PField
		for _, pf := range prof.byMesg[k] {
			if pf.Kind == kindNative && !pf.Array && baseOf(pf.Base).Integer {
				cand = append(cand, pf)
			}
		}
		perm := r.Perm(len(cand))
		a1, a2, x := cand[perm[0]], cand[perm[1]], cand[perm[2]]
		mk := func(fs ...*PField) MMsg {
			m := MMsg{Global: k, Fields: map[int]string{}}
			for _, pf := range fs {
				if v, ok := genCanonValue(r, pf, true); ok {
					m.Fields[pf.SIndex] = v
				}
			}
			return m
		}
		parent := &ModelFile{Type: ft, HdrCRC: i%2 == 0, Proto: 0x20, FileId: map[int]string{}, Msgs: []MMsg{mk(a1, a2, x), mk(a1, a2)}}
		sibling := &ModelFile{Type: ft, HdrCRC: i%2 == 0, Proto: 0x20, FileId: map[int]string{}, Msgs: []MMsg{mk(a1, a2)}}
		hp.files = append(hp.files, parent, sibling)
	}
	// Files with arrays longer than the profile length (Encode truncates; whatever it
	// does to get there must stay private to the call)
	for i := 0; i < 3; i++ {
		r := NewRng(seed, "C08/longfile", i)
		mf := genModelFile(r, MFOpts{InDomain: true, FT: []byte{4, 2, 20}[i], MaxMsgs: 3, MaxFields: 5})
		for _, spec := range [][2]string{{"78", "Time"}, {"18", "TimeInHrZone"}, {"2", "TimeOffset"}} {
			var g uint16
			fmt.Sscan(spec[0], &g)
			if _, hosted := hostsOf(mf.Type)[g]; !hosted {
				continue
			}
			if pf := fieldByName(g, spec[1]); pf != nil {
				mf.Msgs = append(mf.Msgs, MMsg{Global: g, Fields: map[int]string{pf.SIndex: "[u1 u2 u3 u4 u5]"}})
			}
		}
		hp.files = append(hp.files, mf)
	}
	// Files whose Encode fails part-way (a string that is not UTF-8, placed in a late
	// message): whatever such a call leaves behind must not reach the next call
	for i := 0; i < 2; i++ {
		r := NewRng(seed, "C08/badfile", i)
		mf := genModelFile(r, MFOpts{InDomain: true, FT: 4, MaxMsgs: 4, MaxFields: 6})
		if pf := fieldByName(12, "Name"); pf != nil { // sport.name
			mf.Msgs = append(mf.Msgs, MMsg{Global: 12, Fields: map[int]string{pf.SIndex: `s"caf\xe9 \xff"`}})
		}
		hp.badFiles = append(hp.badFiles, mf)
	}
	return hp
}

func (p *propC08) Prepare(seed uint64, tier string) int {
	p.seed, p.tier = seed, tier
	p.pool = buildHistPool(seed, isThorough(tier))
	p.count = 4000
	if isThorough(tier) {
		p.count = 30000
	}
	return p.count
}

// genHistoryTasks draws a set of tasks over the pool; shared with C09.
func genOp(r *Rng, hp *histPool, id int, decodes []int, tasks []Task) Task {
	pickSingle := func() string {
		if len(hp.probes) > 0 && r.Chance(1, 4) {
			return hp.probes[r.Intn(len(hp.probes))]
		}
		return hp.singles[r.Intn(len(hp.singles))]
	}
	switch x := r.Intn(20); {
	case x < 8:
		return Task{ID: id, Call: "Decode", In: pickSingle(), Opts: optSets[r.Intn(len(optSets))], SharedOpts: r.Chance(1, 3), Read: genPlan(r, false, true)}
	case x < 10 && len(hp.chainIDs) > 0:
		return Task{ID: id, Call: "DecodeChained", In: hp.chainIDs[r.Intn(len(hp.chainIDs))], Opts: optSets[r.Intn(len(optSets))], SharedOpts: r.Chance(1, 3), Read: genPlan(r, false, true)}
	case x == 10:
		return Task{ID: id, Call: "CheckIntegrity", In: pickSingle(), Read: genPlan(r, false, true)}
	case x == 11:
		return Task{ID: id, Call: "DecodeHeader", In: pickSingle(), Read: planFull()}
	case x == 12:
		return Task{ID: id, Call: "DecodeHeaderAndFileID", In: pickSingle(), Read: genPlan(r, false, false)}
	case x == 13:
		return Task{ID: id, Call: "HeaderMarshalJSON", In: pickSingle(), Repeat: 2}
	case x < 17 && len(decodes) > 0:
		arch := []string{"le", "be"}[r.Intn(2)]
		return Task{ID: id, Call: "Encode", In: fmt.Sprintf("result:%d", decodes[r.Intn(len(decodes))]), Arch: arch}
	default:
		arch := []string{"le", "be"}[r.Intn(2)]
		rep := 1
		if r.Chance(1, 2) {
			rep = 16
		}
		switch r.Intn(6) {
		case 0:
			if len(hp.badFiles) > 0 {
				return Task{ID: id, Call: "Encode", File: hp.badFiles[r.Intn(len(hp.badFiles))], Arch: arch}
			}
		case 1:
			// a sink that fails at its 1st, 2nd or 3rd Write
			return Task{ID: id, Call: "Encode", File: hp.files[r.Intn(len(hp.files))], Arch: arch, WriteFail: r.Range(1, 3)}
		}
		return Task{ID: id, Call: "Encode", File: hp.files[r.Intn(len(hp.files))], Arch: arch, Repeat: rep, Sink: []string{"", "", "", "buffer", "buffer+"}[r.Intn(5)]}
	}
}

func (p *propC08) Gen(idx int) *Scenario {
	r := NewRng(p.seed, "C08", idx)
	hp := p.pool
	sc := &Scenario{V: 1, Property: "C08", Engine: "hist", Seed: p.seed, Index: idx, Media: hp.media}
	n := r.Range(2, 30)
	if r.Chance(1, 2) {
		n = r.Range(2, 8)
	}
	if r.Chance(1, 50) {
		n = r.Range(70, 140) // long histories (caches and tables sized for "a few" calls)
	}
	var decodes []int
	for len(sc.History) < n {
		var t Task
		if len(sc.History) == 0 && r.Chance(1, 2) {
			// a component-bearing input first
			var acc []string
			for _, id := range hp.singles {
				if hp.accum[id] {
					acc = append(acc, id)
				}
			}
			if len(acc) > 0 {
				t = Task{ID: len(sc.Tasks), Call: "Decode", In: acc[r.Intn(len(acc))], Read: genPlan(r, false, true)}
			}
		}
		if t.Call == "" {
			t = genOp(r, hp, len(sc.Tasks), decodes, sc.Tasks)
		}
		if t.Call == "Decode" && len(t.Opts) == 0 {
			decodes = append(decodes, t.ID)
		}
		sc.Tasks = append(sc.Tasks, t)
		sc.History = append(sc.History, t.ID)
		// repeat right after itself
		for r.Chance(1, 3) && len(sc.History) < n && t.Call != "Encode" {
			sc.History = append(sc.History, t.ID)
		}
		// or come back to an earlier task
		if r.Chance(1, 5) && len(sc.Tasks) > 1 {
			prev := sc.Tasks[r.Intn(len(sc.Tasks))]
			if !strings.HasPrefix(prev.In, "result:") {
				sc.History = append(sc.History, prev.ID)
			}
		}
	}
	// keep only media that the tasks use
	sc.Media = usedMedia(hp.media, sc.Tasks)
	return sc
}

func usedMedia(all []Medium, tasks []Task) []Medium {
	byID := map[string]*Medium{}
	for i := range all {
		byID[all[i].ID] = &all[i]
	}
	need := map[string]bool{}
	var mark func(id string)
	mark = func(id string) {
		if need[id] || byID[id] == nil {
			return
		}
		need[id] = true
		for _, c := range byID[id].Chain {
			mark(c)
		}
	}
	for _, t := range tasks {
		mark(t.In)
	}
	var out []Medium
	for i := range all {
		if need[all[i].ID] {
			out = append(out, all[i])
		}
	}
	return out
}

var idxRe = regexp.MustCompile(`\[\d+\]`)

func abstractPath(d string) string {
	if i := strings.Index(d, ":"); i > 0 {
		d = d[:i]
	}
	return idxRe.ReplaceAllString(d, "[]")
}

// compareWithBaseline compares one in-history result with its fresh-process
// baseline; returns a violation (class suffix, detail, signature) or "".
func compareWithBaseline(r, base *Result) (class, detail, sig string) {
	if base.Panic != "" && strings.HasPrefix(base.Panic, "BASELINE PROCESS DIED") {
		return "baseline-died", base.Panic, ""
	}
	if r.Panic != base.Panic {
		return "panic", fmt.Sprintf("panic %q, fresh process: %q", r.Panic, base.Panic), ""
	}
	if r.ErrClass != base.ErrClass || r.Err != base.Err {
		return "error-differs", fmt.Sprintf("error %q, fresh process %q", r.Err, base.Err), ""
	}
	if r.BuildErr != base.BuildErr {
		return "build", r.BuildErr + " vs " + base.BuildErr, ""
	}
	cmp := func(a, b []string) (string, string, string) {
		d := firstDiff(a, b)
		if d == "" {
			return "", "", ""
		}
		if onlyCarriedDistance(a, b) {
			return "RecordMsg.Distance", "decoded content differs from the fresh-process result: " + d, "carried-accumulator"
		}
		if onlyDistanceDiffers(a, b) {
			return "RecordMsg.Distance", "decoded content differs from the fresh-process result: " + d, "shared-accumulator"
		}
		return "result-differs/" + abstractPath(d), "result differs from the same call made first in a fresh process: " + d, ""
	}
	if c, d, s := cmp(r.Dump, base.Dump); c != "" {
		return c, d, s
	}
	if len(r.Dumps) != len(base.Dumps) {
		return "file-count", fmt.Sprintf("%d files vs %d", len(r.Dumps), len(base.Dumps)), ""
	}
	for i := range r.Dumps {
		if c, d, s := cmp(r.Dumps[i], base.Dumps[i]); c != "" {
			return c, fmt.Sprintf("file #%d: %s", i+1, d), s
		}
	}
	if r.Call == "Encode" {
		if r.RepeatDiff != 0 {
			return "encode-repeat-differs", fmt.Sprintf("repeat #%d of Encode on the same File wrote different bytes than the first call", r.RepeatDiff), ""
		}
		if !bytes.Equal(r.Out, base.Out) {
			// classify: decode both outputs and look at the content
			fa, ea := fit.Decode(bytes.NewReader(r.Out))
			fb, eb := fit.Decode(bytes.NewReader(base.Out))
			if ea == nil && eb == nil {
				da, db := contentLines(dumpFile(fa)), contentLines(dumpFile(fb))
				if onlyCarriedDistance(da, db) {
					return "RecordMsg.Distance", "Encode output differs from the fresh-process output only through the decoded Distance values it was given", "carried-accumulator"
				}
				if d := firstDiff(da, db); d != "" {
					return "encode-output-content/" + abstractPath(d), "decoded content of Encode's output differs from the fresh-process output: " + d, ""
				}
			}
			return "encode-output-bytes", fmt.Sprintf("Encode wrote %d bytes that differ from the %d bytes a fresh process writes for the same File", len(r.Out), len(base.Out)), ""
		}
		if r.PostHdrSize != base.PostHdrSize || r.PostCRC != base.PostCRC || r.PostHdrCRC != base.PostHdrCRC {
			return "encode-post-state", "File header/CRC fields after Encode differ from the fresh-process run", ""
		}
	}
	if r.Delivered != base.Delivered {
		return "bytes-consumed", fmt.Sprintf("%d bytes consumed vs %d", r.Delivered, base.Delivered), ""
	}
	return "", "", ""
}

func (p *propC08) Check(sc *Scenario, st *Stats) []Violation {
	var vs []Violation
	if len(sc.History) == 0 || len(sc.Tasks) == 0 {
		return nil
	}
	byID := map[int]int{}
	for i, t := range sc.Tasks {
		byID[t.ID] = i
	}
	// a history entry that encodes a result must come after that decode
	seen := map[int]bool{}
	for _, h := range sc.History {
		ti, ok := byID[h]
		if !ok {
			return nil
		}
		t := sc.Tasks[ti]
		if strings.HasPrefix(t.In, "result:") {
			var dep int
			fmt.Sscan(t.In[len("result:"):], &dep)
			if !seen[dep] {
				return nil
			}
		}
		seen[h] = true
	}
	pr := runFresh(sc, false)
	if pr.Died != "" {
		return []Violation{{Property: "C08", Class: "C08/process-died", Detail: pr.Died}}
	}
	res := pr.Out.Results
	if len(res) != len(sc.History) {
		fatalInfra("C08: %d results for %d history entries", len(res), len(sc.History))
	}
	// probes / keys
	accumOf := func(t Task) bool {
		for _, m := range sc.Media {
			if m.ID == t.In {
				b := sc.buildMedia()[m.ID]
				return hasAccumSource(b)
			}
		}
		return false
	}
	nontrivial := false
	accSeen := false
	for i, h := range sc.History {
		t := sc.Tasks[byID[h]]
		if i > 0 {
			pt := sc.Tasks[byID[sc.History[i-1]]]
			if sc.History[i-1] == h || (pt.In == t.In && t.In != "") {
				st.Probe("same input twice in a row")
				nontrivial = true
			}
			cls := func(x Task) string {
				if x.File != nil {
					return "modelfile"
				}
				if strings.HasPrefix(x.In, "result:") {
					return "result"
				}
				return "stream"
			}
			st.Key(pt.Call, t.Call, cls(pt), cls(t))
			if t.Call == "Encode" && strings.HasPrefix(t.In, "result:") {
				st.Probe("Encode of an earlier result")
				if pt.Call == "Decode" && fmt.Sprintf("result:%d", pt.ID) != t.In {
					st.Probe("Encode after Decode of another input")
				}
			}
		}
		if strings.HasPrefix(t.Call, "Decode") && accSeen {
			st.Probe("component-bearing input preceded another decode")
			nontrivial = true
		}
		if strings.HasPrefix(t.Call, "Decode") && !accSeen && accumOf(t) {
			accSeen = true
		}
		if t.Call == "Encode" && t.Repeat >= 16 && t.File != nil {
			for _, m := range t.File.Msgs {
				if len(m.Fields) >= 3 {
					st.Probe("Encode repeated on >= 3 union fields")
					break
				}
			}
		}
		st.ProbeIf(t.Call == "HeaderMarshalJSON", "MarshalJSON twice")
		if t.Call == "Encode" && i > 0 && res[i] != nil {
			for j := i - 1; j >= 0; j-- {
				if pj := sc.Tasks[byID[sc.History[j]]]; pj.Call == "Encode" {
					if res[j] != nil && res[j].ErrClass != "nil" {
						st.Probe("failed Encode followed by another Encode")
					}
					break
				}
			}
		}
	}
	st.ProbeIf(len(sc.History) >= 10, "history length >= 10")
	if nontrivial {
		st.Nontrivial++
	}
	seenCls := map[string]bool{}
	for i, h := range sc.History {
		ti := byID[h]
		r := res[i]
		st.Observe(r)
		base := baselineFor(sc, ti, st)
		c, d, sig := compareWithBaseline(r, base)
		if c == "" {
			continue
		}
		if c == "baseline-died" {
			fatalInfra("C08: %s", d)
		}
		cls := "C08/" + r.Call + "/" + c
		if seenCls[cls+sig] {
			continue
		}
		seenCls[cls+sig] = true
		vs = append(vs, Violation{Property: "C08", Class: cls, Signature: sig, Detail: fmt.Sprintf("history position %d (task %d, %s %s): %s", i, h, r.Call, sc.Tasks[ti].In, d)})
	}
	return vs
}
