package main

import (
	"fmt"
	"strings"

	"github.com/tormoder/fit"
)

// C18 - component fields expand per profile, with per-file accumulation
// (rx half; the cross-file half lives in C08's histories).

type propC18 struct {
	seed  uint64
	tier  string
	count int
}

func init() { register(&propC18{}) }

func (p *propC18) ID() string     { return "C18" }
func (p *propC18) Engine() string { return "rx" }
func (p *propC18) Level() string  { return "exploration" }
func (p *propC18) Rule() string {
	return "scenario = a model-built stream of record / lap / session / segment_lap / event messages in a container that holds them (activity, course, activity summary, segment) whose component sources carry seeded patterns (0, 1, high bit, all-ones minus one, invalid, random); sequences of 2-100 accumulated sources (compressed_speed_distance, cycles, compressed_accumulated_power) with increments that cross their 12/8/16-bit wrap; events of the three component-bearing kinds and others; both byte orders; every second scenario decodes the same stream twice in one process (history class 'again'), every fourth decodes a chain of two component files with DecodeChained; one scenario in 32 is evaluated in a fresh OS process (the decode is that process's first call), where a running total that does not start from zero cannot be the listed package-level-accumulator finding. " +
		"key = (container, message, source field, pattern class, history class); non-trivial when a source was valid"
}
func (p *propC18) Assumptions() []string {
	return []string{
		"component model written from the profile's component columns for the five message kinds the statement names; a valid source decides its destination even when the destination is also transmitted in the same record; don't-cares: an explicitly transmitted running total (distance, total_cycles, accumulated_power) next to its source, enhanced_speed when compressed_speed_distance expands, and the gear/score bytes when data is transmitted next to a valid data16",
		"accumulated destination = running sum of masked deltas since the start of the same stream, first delta taken from 0",
		"known findings D9 (total_cycles / accumulated_power accumulators have mask 0), D10 (compressed distance loses bits 8-11), D11 (accumulators are package-level) are classified by signature predicates and reported as KNOWN-FINDING; any other wrong value is a VIOLATION",
	}
}
func (p *propC18) ProbeNames() []string {
	return []string{"12-bit wrap", "8-bit wrap", "16-bit wrap", "invalid source", "event sport_point", "event gear change", "event other kind", "same stream twice", "chain of two component files", "segment file segment_lap", "course lap", "same records under two file types", "first decode of a fresh process"}
}

func (p *propC18) Prepare(seed uint64, tier string) int {
	p.seed, p.tier = seed, tier
	p.count = 300000
	if isThorough(tier) {
		p.count = 2000000
	}
	return p.count
}

var c18Hosts = []ftMesg{
	{4, gRecord}, {4, gLap}, {4, gSession}, {4, gSegmentLap}, {4, gEvent},
	{6, gRecord}, {6, gLap}, {6, gEvent}, {20, gSession}, {20, gLap}, {34, gSegmentLap},
}

func pat16(r *Rng) uint64 {
	switch r.Intn(7) {
	case 0:
		return 0
	case 1:
		return 1
	case 2:
		return 0x8000
	case 3:
		return 0xFFFE
	case 4:
		return 0xFFFF
	}
	return r.U64() & 0xFFFF
}

// genComponentStream builds one component-bearing stream.
// pat32: values for explicitly transmitted 32-bit destinations
func pat32(r *Rng) uint64 {
	switch r.Intn(6) {
	case 0:
		return 0xFFFFFFFF
	case 1:
		return uint64(r.Intn(0x10000))
	case 2:
		return 0x10000 + uint64(r.Intn(0x100))
	}
	return r.U64() & 0xFFFFFFFF
}

func genComponentStream(r *Rng, ft byte, focus uint16) *RecStream {
	g := &streamGen{r: r, o: StreamOpts{FT: ft, Arch: r.Intn(3)}}
	fl := byte(r.Intn(16))
	g.emitDef(&DefOp{Local: fl, Arch: g.arch(), Global: 0, Fields: [][3]int{{0, 1, 0}}})
	g.emitData(fl, false, 0, []byte{ft})
	fnum := func(gl uint16, name string) int {
		pf := fieldByName(gl, name)
		if pf == nil {
			fatalInfra("component model: %s.%s not in profile snapshot", prof.MesgName(gl), name)
		}
		return int(pf.Num)
	}
	kinds := []uint16{focus}
	for _, h := range c18Hosts {
		if h.ft == ft && r.Chance(1, 2) {
			kinds = append(kinds, h.mn)
		}
	}
	for _, gl := range kinds {
		local := byte(r.Intn(16))
		d := &DefOp{Local: local, Arch: g.arch(), Global: gl}
		switch gl {
		case gRecord:
			for _, n := range []string{"Altitude", "Speed", "CompressedSpeedDistance", "Cycles", "CompressedAccumulatedPower", "HeartRate"} {
				if r.Chance(2, 3) {
					pf := fieldByName(gl, n)
					sz := baseOf(pf.Base).Size
					if pf.Array {
						sz = 3
					}
					d.Fields = append(d.Fields, [3]int{int(pf.Num), sz, int(pf.Base)})
				}
			}
			// destinations transmitted next to their sources: the source still decides
			for _, n := range []string{"EnhancedAltitude", "EnhancedSpeed"} {
				if r.Chance(1, 6) {
					d.Fields = append(d.Fields, [3]int{fnum(gl, n), 4, 0x86})
				}
			}
			if len(d.Fields) == 0 {
				d.Fields = [][3]int{{fnum(gl, "CompressedSpeedDistance"), 3, 0x0D}}
			}
			if r.Chance(1, 4) {
				// first a few records that transmit the running totals themselves and no
				// source for them: they say nothing about the sums expanded later
				el := byte((int(local) + 1 + r.Intn(15)) % 16)
				ed := &DefOp{Local: el, Arch: g.arch(), Global: gl}
				for _, n := range []string{"Distance", "TotalCycles", "AccumulatedPower"} {
					if r.Chance(2, 3) {
						ed.Fields = append(ed.Fields, [3]int{fnum(gl, n), 4, 0x86})
					}
				}
				if len(ed.Fields) > 0 {
					g.emitDef(ed)
					for k := r.Range(1, 3); k > 0; k-- {
						var pl []byte
						for range ed.Fields {
							b := make([]byte, 4)
							putN(b, ed.be(), uint64(r.Intn(2000000)))
							pl = append(pl, b...)
						}
						g.emitData(el, false, 0, pl)
					}
				}
			}
			if r.Bool() {
				perm := r.Perm(len(d.Fields))
				nf := make([][3]int, len(d.Fields))
				for i, j := range perm {
					nf[i] = d.Fields[j]
				}
				d.Fields = nf
			}
			g.emitDef(d)
			n := r.Range(2, 30)
			if r.Chance(1, 10) {
				n = r.Range(30, 100)
			}
			var dist, cyc, pow uint32
			dist, cyc, pow = uint32(r.Intn(4096)), uint32(r.Intn(256)), uint32(r.Intn(65536))
			for k := 0; k < n; k++ {
				var pl []byte
				for _, fd := range d.Fields {
					b := make([]byte, fd[1])
					switch fd[0] {
					case fnum(gl, "CompressedSpeedDistance"):
						dist = (dist + uint32(r.Intn(700))) & 0xFFF
						sp := uint32(r.Intn(4096))
						b[0] = byte(sp)
						b[1] = byte(sp>>8&0x0F) | byte(dist&0x0F)<<4
						b[2] = byte(dist >> 4)
						if r.Chance(1, 15) {
							b[0], b[1], b[2] = 0xFF, 0xFF, 0xFF
						}
					case fnum(gl, "Cycles"):
						cyc = (cyc + uint32(r.Intn(120))) & 0xFF
						b[0] = byte(cyc)
						if r.Chance(1, 15) {
							b[0] = 0xFF
						}
					case fnum(gl, "CompressedAccumulatedPower"):
						pow = (pow + uint32(r.Intn(30000))) & 0xFFFF
						v := uint64(pow)
						if r.Chance(1, 15) {
							v = 0xFFFF
						}
						putN(b, d.be(), v)
					case fnum(gl, "HeartRate"):
						b[0] = byte(r.Intn(255))
					default:
						if fd[1] == 4 {
							putN(b, d.be(), pat32(r))
						} else {
							putN(b, d.be(), pat16(r))
						}
					}
					pl = append(pl, b...)
				}
				g.emitData(local, false, 0, pl)
				if k == n/2 && r.Chance(1, 6) {
					// a second file_id of the same type in the middle of the records is legal
					// and starts nothing over
					il := byte((int(local) + 1 + r.Intn(15)) % 16)
					g.emitDef(&DefOp{Local: il, Arch: g.arch(), Global: 0, Fields: [][3]int{{0, 1, 0}}})
					g.emitData(il, false, 0, []byte{ft})
				}
			}
		case gLap, gSession, gSegmentLap:
			names := []string{"AvgAltitude", "MaxAltitude", "MinAltitude"}
			if gl != gSegmentLap {
				names = append(names, "AvgSpeed", "MaxSpeed")
			}
			for _, n := range names {
				if r.Chance(3, 4) {
					d.Fields = append(d.Fields, [3]int{fnum(gl, n), 2, 0x84})
				}
			}
			// explicit destinations, before or after their sources
			for _, n := range names {
				if r.Chance(1, 6) {
					f := [3]int{fnum(gl, "Enhanced"+n), 4, 0x86}
					if r.Bool() {
						d.Fields = append(d.Fields, f)
					} else {
						d.Fields = append([][3]int{f}, d.Fields...)
					}
				}
			}
			if len(d.Fields) == 0 {
				d.Fields = [][3]int{{fnum(gl, "AvgAltitude"), 2, 0x84}}
			}
			g.emitDef(d)
			for k := r.Range(1, 4); k > 0; k-- {
				var pl []byte
				for _, fd := range d.Fields {
					b := make([]byte, fd[1])
					if fd[1] == 4 {
						putN(b, d.be(), pat32(r))
					} else {
						putN(b, d.be(), pat16(r))
					}
					pl = append(pl, b...)
				}
				g.emitData(local, false, 0, pl)
			}
		case gEvent:
			d.Fields = [][3]int{{fnum(gl, "Event"), 1, 0x00}}
			use16 := r.Chance(1, 3)
			if use16 {
				d.Fields = append(d.Fields, [3]int{fnum(gl, "Data16"), 2, 0x84})
			}
			if !use16 || r.Chance(1, 3) {
				d.Fields = append(d.Fields, [3]int{fnum(gl, "Data"), 4, 0x86})
			}
			if r.Bool() {
				d.Fields[0], d.Fields[len(d.Fields)-1] = d.Fields[len(d.Fields)-1], d.Fields[0]
			}
			g.emitDef(d)
			for k := r.Range(1, 6); k > 0; k-- {
				var pl []byte
				for _, fd := range d.Fields {
					b := make([]byte, fd[1])
					switch fd[1] {
					case 1:
						b[0] = []byte{evSportPoint, evFrontGearChange, evRearGearChange, 0, 0xFF, byte(r.Intn(50))}[r.Intn(6)]
					case 2:
						putN(b, d.be(), pat16(r))
					default:
						v := r.U64() & 0xFFFFFFFF
						switch r.Intn(6) {
						case 0:
							v = 0xFFFFFFFF
						case 1:
							v = 0x80FF7F01
						}
						putN(b, d.be(), v)
					}
					pl = append(pl, b...)
				}
				g.emitData(local, false, 0, pl)
			}
		}
	}
	return &RecStream{Header: HeaderSpec{Size: 12 + 2*r.Intn(2), Proto: 0x20, Profile: 2115, HCRC: "ok"}, Ops: g.ops}
}

func (p *propC18) Gen(idx int) *Scenario {
	r := NewRng(p.seed, "C18", idx)
	initAccumSources()
	h := c18Hosts[idx%len(c18Hosts)]
	rs := genComponentStream(r, h.ft, h.mn)
	sc := &Scenario{V: 1, Property: "C18", Engine: "rx", Seed: p.seed, Index: idx, Params: map[string]string{}}
	plan := genPlan(r, false, true)
	switch {
	case idx%8 == 6:
		// twin: the same records under two file types that both hold the message kind;
		// what a message expands to must not depend on the container
		other := map[byte]byte{4: 6, 6: 4, 20: 4, 34: 4}[h.ft]
		if h.mn == gSession || (h.mn == gLap && h.ft == 4) {
			other = 20
		}
		if h.mn == gSegmentLap && h.ft == 4 {
			other = 34
		}
		if _, ok := hostsOf(other)[h.mn]; !ok {
			other = h.ft
		}
		rs2 := &RecStream{Header: rs.Header, Ops: append([]Op{}, rs.Ops...)}
		// every file_id record of the twin (the leading one and a repeated one) names the other type
		var tdefs [16]*DefOp
		for i, op := range rs.Ops {
			if op.Def != nil {
				tdefs[op.Def.Local&15] = op.Def
				continue
			}
			if op.Data == nil || op.Data.Comp {
				continue
			}
			if d := tdefs[op.Data.Local&15]; d != nil && d.Global == 0 && len(d.Fields) == 1 && d.Fields[0] == [3]int{0, 1, 0} {
				d2 := *op.Data
				d2.Bytes = hexs([]byte{other})
				rs2.Ops[i] = Op{Data: &d2}
			}
		}
		sc.Family = "twin"
		sc.Media = []Medium{{ID: "m0", Records: rs}, {ID: "m1", Records: rs2}}
		sc.Tasks = []Task{{ID: 0, Call: "Decode", In: "m0", Read: plan}, {ID: 1, Call: "Decode", In: "m1", Read: plan}}
	case idx%4 == 3:
		h2 := c18Hosts[r.Intn(len(c18Hosts))]
		rs2 := genComponentStream(r, h2.ft, h2.mn)
		sc.Family = "chain"
		sc.Media = []Medium{{ID: "f0", Records: rs}, {ID: "f1", Records: rs2}, {ID: "m0", Chain: []string{"f0", "f1"}}}
		sc.Tasks = []Task{{ID: 0, Call: "DecodeChained", In: "m0", Read: plan}}
	case idx%32 == 12:
		// evaluated in a fresh OS process: the decode is the first call that process
		// makes, so a running total can only start from zero
		sc.Family = "fresh"
		sc.Media = []Medium{{ID: "m0", Records: rs}}
		sc.Tasks = []Task{{ID: 0, Call: "Decode", In: "m0", Read: plan}}
	case idx%2 == 1:
		sc.Family = "again"
		sc.Media = []Medium{{ID: "m0", Records: rs}}
		sc.Tasks = []Task{{ID: 0, Call: "Decode", In: "m0", Read: plan}, {ID: 1, Call: "Decode", In: "m0", Read: planFull()}}
	default:
		sc.Family = "once"
		sc.Media = []Medium{{ID: "m0", Records: rs}}
		sc.Tasks = []Task{{ID: 0, Call: "Decode", In: "m0", Read: plan}}
	}
	return sc
}

// accumCheck compares the accumulated destinations of the decoded records with
// the model and classifies mismatches against the known-finding signatures.
func accumCheck(f *fit.File, ft byte, msgs []ModelMsg, st *Stats) []Violation {
	var vs []Violation
	hs := hostsOf(ft)
	h, ok := hs[gRecord]
	if !ok || !h.Slice {
		return nil
	}
	got, ok := slotValues(f, ft, h.Field)
	if !ok {
		return nil
	}
	acc := newAccState()
	type series struct {
		name      string
		want, obs []uint32
		raw       []uint32
		bits      uint
		wrapProbe string
		lastRaw   uint32
		haveRaw   bool
	}
	ss := []*series{
		{name: "Distance", bits: 12, wrapProbe: "12-bit wrap"},
		{name: "TotalCycles", bits: 8, wrapProbe: "8-bit wrap"},
		{name: "AccumulatedPower", bits: 16, wrapProbe: "16-bit wrap"},
	}
	srcName := map[string]string{"Distance": "CompressedSpeedDistance", "TotalCycles": "Cycles", "AccumulatedPower": "CompressedAccumulatedPower"}
	ri := 0
	for i := range msgs {
		m := &msgs[i]
		if _, hosted := hs[m.Global]; !hosted {
			continue
		}
		em := expandModelMsg(m, acc)
		if m.Global != gRecord {
			continue
		}
		if ri >= len(got) {
			return nil // count mismatch is reported by the generic comparison
		}
		gv := got[ri]
		ri++
		for _, s := range ss {
			dp := fieldByName(gRecord, s.name)
			sp := fieldByName(gRecord, srcName[s.name])
			if dp == nil || sp == nil || !em.accum[dp.SIndex] || em.dontCare[dp.SIndex] {
				continue
			}
			w, ok := parseU(em.fields[dp.SIndex])
			if !ok {
				continue
			}
			// raw source sample
			var raw uint32
			src := em.fields[sp.SIndex]
			if s.name == "Distance" {
				b := unhex(src[1:])
				raw = uint32(b[1]>>4) | uint32(b[2])<<4
			} else {
				v, _ := parseU(src)
				raw = uint32(v)
			}
			if s.haveRaw && raw < s.lastRaw && st != nil {
				st.Probe(s.wrapProbe)
			}
			s.lastRaw, s.haveRaw = raw, true
			s.raw = append(s.raw, raw)
			s.want = append(s.want, uint32(w))
			s.obs = append(s.obs, uint32(gv.Field(dp.SIndex).Uint()))
		}
	}
	for _, s := range ss {
		if len(s.want) == 0 {
			continue
		}
		equal := true
		for i := range s.want {
			if s.want[i] != s.obs[i] {
				equal = false
				break
			}
		}
		if equal {
			continue
		}
		sig := ""
		// variants
		constOffset := func(series []uint32) (bool, uint32) {
			k := s.obs[0] - series[0]
			for i := range series {
				if s.obs[i]-series[i] != k {
					return false, 0
				}
			}
			return true, k
		}
		if s.name != "Distance" {
			allZero := true
			for _, o := range s.obs {
				if o != 0 {
					allZero = false
				}
			}
			if allZero {
				sig = "always-zero"
			}
		}
		var lb []uint32
		if s.name == "Distance" {
			var a accum
			lb = make([]uint32, len(s.raw))
			for i, rv := range s.raw {
				lb[i] = a.add(rv&0xFF, 12)
			}
			// exact low-byte arithmetic first: with few samples it can also look like
			// a constant shift of the right sums
			if ok, k := constOffset(lb); sig == "" && ok && k == 0 {
				sig = "low-byte-distance"
			}
		}
		if sig == "" {
			if ok, k := constOffset(s.want); ok && k != 0 {
				sig = "carried-accumulator"
			}
		}
		if sig == "" && s.name == "Distance" {
			if ok, k := constOffset(lb); ok && k != 0 {
				sig = "low-byte-distance+carried-accumulator"
			}
		}
		first := 0
		for i := range s.want {
			if s.want[i] != s.obs[i] {
				first = i
				break
			}
		}
		cls := "C18/RecordMsg." + s.name
		if freshProcess && strings.Contains(sig, "carried-accumulator") {
			// nothing was decoded before in this process: a running total that does not
			// start from zero is not the listed package-level-accumulator finding
			sig = ""
			cls += "/first-decode-of-process"
		}
		vs = append(vs, Violation{Property: "C18", Class: cls, Signature: sig,
			Detail: fmt.Sprintf("accumulated %s of record #%d (of %d with a valid source): want %d got %d", s.name, first, len(s.want), s.want[first], s.obs[first])})
	}
	return vs
}

func (p *propC18) Check(sc *Scenario, st *Stats) []Violation {
	var vs []Violation
	if len(sc.Tasks) == 0 {
		return nil
	}
	type unit struct {
		ops []Op
	}
	var units []unit
	for _, id := range []string{"f0", "f1", "m0"} {
		for i := range sc.Media {
			if sc.Media[i].ID == id && sc.Media[i].Records != nil {
				units = append(units, unit{sc.Media[i].Records.Ops})
			}
		}
	}
	if len(units) == 0 {
		return nil
	}
	for _, u := range units {
		if !streamSane(u.ops) {
			return nil
		}
	}
	if sc.Family == "twin" {
		return p.checkTwin(sc, st)
	}
	if sc.Family == "fresh" && !freshProcess {
		st.Probe("first decode of a fresh process")
		st.Evaluations++
		cvs, died := checkInFreshProcess(sc)
		if died != "" {
			return []Violation{{Property: "C18", Class: "C18/fresh-process/died", Detail: died}}
		}
		return cvs
	}
	res := runScenarioSeq(sc)
	hist := sc.Family
	for ti, r := range res {
		st.Observe(r)
		if r.Panic != "" {
			return []Violation{{Property: "C18", Class: "C18/panic", Detail: r.Panic}}
		}
		if r.ErrClass != "nil" {
			return []Violation{{Property: "C18", Class: "C18/rejects-wellformed", Detail: "decode failed: " + r.Err}}
		}
		files := r.files
		if r.Call == "Decode" {
			files = []*fit.File{r.file}
		}
		if len(files) != len(units) && r.Call == "DecodeChained" {
			return []Violation{{Property: "C18", Class: "C18/chain-file-count", Detail: fmt.Sprintf("%d files for %d frames", len(files), len(units))}}
		}
		st.ProbeIf(ti == 1, "same stream twice")
		st.ProbeIf(r.Call == "DecodeChained", "chain of two component files")
		for fi, f := range files {
			ops := units[0].ops
			if r.Call == "DecodeChained" {
				ops = units[fi].ops
			}
			ft, ok := fileTypeOfOps(ops)
			if !ok || !isSupportedFileType(ft) {
				continue
			}
			mo := interpret(ops)
			if mo.ErrOp >= 0 {
				continue
			}
			// keys and probes
			valid := false
			for _, m := range mo.Msgs {
				for si, v := range m.Fields {
					pf := prof.byMesg[m.Global][0]
					for _, q := range prof.byMesg[m.Global] {
						if q.SIndex == si {
							pf = q
						}
					}
					switch m.Global {
					case gRecord, gLap, gSession, gSegmentLap, gEvent:
						pc := "valid"
						if v == invalidCanon(pf) || v == "bffffff" {
							pc = "invalid"
							st.Probe("invalid source")
						} else {
							valid = true
						}
						st.Key(fileTypeAccessor[ft], m.Global, pf.Name, pc, hist)
					}
				}
				if m.Global == gEvent {
					if ep := fieldByName(gEvent, "Event"); ep != nil {
						switch m.Fields[ep.SIndex] {
						case "u33":
							st.Probe("event sport_point")
						case "u42", "u43":
							st.Probe("event gear change")
						default:
							st.Probe("event other kind")
						}
					}
				}
				st.ProbeIf(m.Global == gSegmentLap && ft == 34, "segment file segment_lap")
				st.ProbeIf(m.Global == gLap && ft == 6, "course lap")
			}
			if valid && ti == 0 && fi == 0 {
				st.Nontrivial++
			}
			diffs := compareFile(f, ft, mo.Msgs, compareOpts{skipAccum: true}, st)
			seen := map[string]bool{}
			for _, d := range diffs {
				cls := fmt.Sprintf("C18/%s.%s", prof.MesgName(d.Global), d.Field)
				if seen[cls] {
					continue
				}
				seen[cls] = true
				vs = append(vs, Violation{Property: "C18", Class: cls, Detail: fmt.Sprintf("%s file, history %s: %s", fileTypeAccessor[ft], hist, d.String())})
				if len(vs) > 4 {
					return vs
				}
			}
			vs = append(vs, accumCheck(f, ft, mo.Msgs, st)...)
		}
	}
	return vs
}

// checkTwin decodes the same records under two file types and compares the
// messages of every component-bearing kind both containers hold, field by
// field (the three accumulated destinations excluded: D11 makes the second
// decode of a process differ).
func (p *propC18) checkTwin(sc *Scenario, st *Stats) []Violation {
	var vs []Violation
	if len(sc.Media) < 2 || sc.Media[0].Records == nil || sc.Media[1].Records == nil || len(sc.Tasks) < 2 {
		return nil
	}
	if !streamSane(sc.Media[0].Records.Ops) || !streamSane(sc.Media[1].Records.Ops) {
		return nil
	}
	ftA, okA := fileTypeOfOps(sc.Media[0].Records.Ops)
	ftB, okB := fileTypeOfOps(sc.Media[1].Records.Ops)
	if !okA || !okB || !isSupportedFileType(ftA) || !isSupportedFileType(ftB) || ftA == ftB {
		return nil
	}
	res := runScenarioSeq(sc)
	for _, r := range res {
		st.Observe(r)
		if r.Panic != "" || r.ErrClass != "nil" || r.file == nil {
			return []Violation{{Property: "C18", Class: "C18/twin/decode-failed", Detail: r.Panic + r.Err}}
		}
	}
	st.Probe("same records under two file types")
	st.Nontrivial++
	skip := map[string]bool{"Distance": true, "TotalCycles": true, "AccumulatedPower": true}
	for _, g := range []uint16{gRecord, gLap, gSession, gSegmentLap, gEvent} {
		ha, oka := hostsOf(ftA)[g]
		hb, okb := hostsOf(ftB)[g]
		if !oka || !okb {
			continue
		}
		va, _ := slotValues(res[0].file, ftA, ha.Field)
		vb, _ := slotValues(res[1].file, ftB, hb.Field)
		if !ha.Slice && len(va) > 0 {
			va = va[len(va)-1:]
		}
		if !hb.Slice && len(vb) > 0 {
			vb = vb[len(vb)-1:]
		}
		if ha.Slice && !hb.Slice && len(va) > 0 {
			va = va[len(va)-1:]
		}
		if hb.Slice && !ha.Slice && len(vb) > 0 {
			vb = vb[len(vb)-1:]
		}
		if len(va) != len(vb) {
			vs = append(vs, Violation{Property: "C18", Class: "C18/twin/count/" + prof.MesgName(g), Detail: fmt.Sprintf("%s: %d messages in the %s file, %d in the %s file", prof.MesgName(g), len(va), fileTypeAccessor[ftA], len(vb), fileTypeAccessor[ftB])})
			continue
		}
		st.Key("twin", fileTypeAccessor[ftA], fileTypeAccessor[ftB], g)
		for i := range va {
			for _, pf := range prof.byMesg[g] {
				if pf.SIndex >= va[i].NumField() || (g == gRecord && skip[pf.Name]) {
					continue
				}
				x, y := canonValue(va[i].Field(pf.SIndex)), canonValue(vb[i].Field(pf.SIndex))
				if x != y {
					vs = append(vs, Violation{Property: "C18", Class: fmt.Sprintf("C18/twin/%s.%s", prof.MesgName(g), pf.Name),
						Detail: fmt.Sprintf("the same %s record expands differently: %s = %s in the %s file, %s in the %s file", prof.MesgName(g), pf.Name, clip(x), fileTypeAccessor[ftA], clip(y), fileTypeAccessor[ftB])})
					return vs
				}
			}
		}
	}
	return vs
}
