package main

import (
	"bufio"
	"bytes"
	"errors"
	"fmt"
	"io"
	"reflect"
	"strconv"
	"strings"
	"sync"

	"github.com/tormoder/fit"
)

// Result is everything observed from one entry-point call.
type Result struct {
	Task     int        `json:"task"`
	Call     string     `json:"call"`
	Err      string     `json:"err,omitempty"`
	ErrClass string     `json:"err_class"`
	Panic    string     `json:"panic,omitempty"`
	Hang     bool       `json:"hang,omitempty"`
	Dump     []string   `json:"dump,omitempty"`  // single-result calls
	Dumps    [][]string `json:"dumps,omitempty"` // DecodeChained: one per file
	NFiles   int        `json:"nfiles,omitempty"`

	// reader observations
	SeqPos     []int       `json:"seq_pos,omitempty"` // reader position after each call of a Seq task
	Delivered  int         `json:"delivered"`
	MaxWantEnd int         `json:"max_want_end"`
	ReadCalls  int         `json:"read_calls"`
	TraceHash  uint64      `json:"trace_hash"`
	CutFired   bool        `json:"cut_fired,omitempty"`
	FailFired  bool        `json:"fail_fired,omitempty"`
	FailData   bool        `json:"fail_data,omitempty"`
	EOFData    bool        `json:"eof_data,omitempty"`
	Stutters   int         `json:"stutters,omitempty"`
	ShortReads int         `json:"short_reads,omitempty"`
	LogLines   int         `json:"log_lines,omitempty"`
	LogHash    uint64      `json:"log_hash,omitempty"`
	FirstReads []readEvent `json:"first_reads,omitempty"`

	// writer observations
	Out         []byte   `json:"out,omitempty"`
	Outs        [][]byte `json:"-"`
	WriteSz     []int    `json:"write_sizes,omitempty"`
	PostHdrSize uint32   `json:"post_hdr_size,omitempty"`
	PostHdrCRC  uint16   `json:"post_hdr_crc,omitempty"`
	PostCRC     uint16   `json:"post_crc,omitempty"`
	BuildErr    string   `json:"build_err,omitempty"`
	Repeats     int      `json:"repeats,omitempty"`
	RepeatDiff  int      `json:"repeat_diff,omitempty"` // index of the first repeated Encode whose bytes differ from the first (0 = none)

	file  *fit.File
	files []*fit.File
	hdr   fit.Header
	fid   fit.FileIdMsg
	kept  [][]byte // byte slices returned by the library, kept to see whether they change later
	keptS []string // their content at the time of return
}

// recheckReturned looks again, after later calls were made, at everything the
// library handed out earlier: Files (content lines, header/CRC excluded because
// Encode legitimately updates them) and byte slices. A value that changed after
// it was returned is reported inside the result's dump, so every oracle that
// compares dumps sees it.
func recheckReturned(results []*Result) {
	for _, r := range results {
		if r == nil {
			continue
		}
		for i, b := range r.kept {
			if string(b) != r.keptS[i] {
				r.Dump = append(r.Dump, "MUTATED-AFTER-RETURN: returned bytes #"+strconv.Itoa(i)+" changed from "+clip(r.keptS[i])+" to "+clip(string(b)))
			}
		}
		if r.Call == "Encode" {
			continue // the File of an Encode task is an input, already covered by its Decode result
		}
		if r.file != nil && len(r.Dump) > 0 && r.Call == "Decode" {
			if d := firstDiff(contentLines(dumpFile(r.file)), contentLines(r.Dump)); d != "" {
				r.Dump = append(r.Dump, "MUTATED-AFTER-RETURN: "+d)
			}
		}
		for i, f := range r.files {
			if i < len(r.Dumps) {
				if d := firstDiff(contentLines(dumpFile(f)), contentLines(r.Dumps[i])); d != "" {
					r.Dumps[i] = append(r.Dumps[i], "MUTATED-AFTER-RETURN: "+d)
				}
			}
		}
	}
}

func classifyErr(err error) string {
	if err == nil {
		return "nil"
	}
	var fe fit.FormatError
	var ie fit.IntegrityError
	var ne fit.NotSupportedError
	switch {
	case errors.Is(err, ErrSimIO):
		return "io:sim"
	case errors.As(err, &ie):
		return "integrity"
	case errors.As(err, &ne):
		return "notsupported"
	case errors.As(err, &fe):
		return "format"
	case errors.Is(err, io.ErrUnexpectedEOF), errors.Is(err, io.EOF):
		return "io:eof"
	}
	s := err.Error()
	switch {
	case strings.Contains(s, ErrSimIO.Error()):
		return "io:sim"
	case strings.Contains(s, "unexpected EOF"):
		return "io:eof"
	}
	return "other"
}

func hasOpt(t *Task, o string) bool {
	for _, x := range t.Opts {
		if x == o {
			return true
		}
	}
	return false
}

// sharedOpts holds the option values that tasks with SharedOpts re-use: a
// caller may build its options once and pass the same values to every call.
// Reset at the start of every scenario.
var (
	sharedOptsMu sync.Mutex
	sharedOpts   = map[string]fit.DecodeOption{}
)

func resetSharedOpts() {
	sharedOptsMu.Lock()
	sharedOpts = map[string]fit.DecodeOption{}
	sharedOptsMu.Unlock()
}

// optionValue returns a fresh option value, or for tasks with SharedOpts the
// one value of the scenario (under the conc engine the tasks of one scenario
// then hand the same value to concurrent calls, as a caller with a
// package-level options slice would).
func optionValue(t *Task, name string, mk func() fit.DecodeOption) fit.DecodeOption {
	if !t.SharedOpts {
		return mk()
	}
	sharedOptsMu.Lock()
	defer sharedOptsMu.Unlock()
	if o, ok := sharedOpts[name]; ok {
		return o
	}
	o := mk()
	sharedOpts[name] = o
	return o
}

// runTask executes one task against the real library. prior holds the results
// of tasks already executed in this scenario (Encode of an earlier result).
func runTask(t *Task, media map[string][]byte, sched Yielder, prior map[int]*Result) (res *Result) {
	res = &Result{Task: t.ID, Call: t.Call, ErrClass: "nil"}
	var rd *SimReader
	var src io.Reader
	var nat *bytes.Reader
	var natBuf *bufio.Reader
	natCut := false
	var lg *SimLogger
	finish := func() {
		if nat != nil {
			left := nat.Len()
			if natBuf != nil {
				left += natBuf.Buffered()
			}
			res.Delivered = int(nat.Size()) - left
			res.MaxWantEnd = res.Delivered
			res.CutFired = natCut && left == 0
		}
		if rd != nil {
			res.Delivered = rd.pos
			res.MaxWantEnd = rd.maxWantEnd
			res.ReadCalls = rd.calls
			res.TraceHash = rd.hash
			res.CutFired, res.FailFired, res.FailData, res.EOFData = rd.cutFired, rd.failFired, rd.failData, rd.eofData
			res.Stutters, res.ShortReads = rd.stutters, rd.shortReads
			res.FirstReads = rd.first
		}
		if lg != nil {
			res.LogLines, res.LogHash = lg.lines, lg.hash
		}
	}
	defer func() {
		if r := recover(); r != nil {
			if sb, ok := r.(stepBudgetExceeded); ok {
				res.Hang = true
				res.Panic = "HANG: " + sb.String()
			} else {
				res.Panic = fmt.Sprint(r)
			}
			res.ErrClass = "panic"
			finish()
		}
	}()
	setErr := func(err error) {
		if err != nil {
			res.Err = err.Error()
		}
		res.ErrClass = classifyErr(err)
	}
	if strings.HasPrefix(t.Call, "Decode") || strings.HasPrefix(t.Call, "CheckIntegrity") {
		m, ok := media[t.In]
		if !ok {
			fatalInfra("task %d: unknown medium %q", t.ID, t.In)
		}
		rd = NewSimReader(m, t.Read, sched, t.ID)
		src = rd
		if t.Read.Native != "" && sched == nil && t.Read.Fail == nil {
			end := len(m)
			if c := t.Read.Cut; c != nil && c.At < end {
				end = c.At
				if end < 0 {
					end = 0
				}
				natCut = true
			}
			nat = bytes.NewReader(m[:end])
			src = nat
			if t.Read.Native == "bufio" {
				natBuf = bufio.NewReaderSize(nat, 16+len(m)%97)
				src = natBuf
			}
			rd = nil
		}
	}
	var opts []fit.DecodeOption
	if hasOpt(t, "logger") {
		lg = &SimLogger{sched: sched, task: t.ID}
		opts = append(opts, fit.WithLogger(lg))
	}
	if hasOpt(t, "unknownFields") {
		opts = append(opts, optionValue(t, "unknownFields", fit.WithUnknownFields))
	}
	if hasOpt(t, "unknownMessages") {
		opts = append(opts, optionValue(t, "unknownMessages", fit.WithUnknownMessages))
	}
	// position of the reader as the caller sees it (bytes handed out so far)
	srcPos := func() int {
		if nat != nil {
			left := nat.Len()
			if natBuf != nil {
				left += natBuf.Buffered()
			}
			return int(nat.Size()) - left
		}
		if rd != nil {
			return rd.pos
		}
		return 0
	}
	if t.Seq > 1 && (t.Call == "Decode" || t.Call == "CheckIntegrity") {
		// the same reader handed to several calls in a row: each call takes one
		// file of a concatenation and leaves the reader at its end
		for i := 0; i < t.Seq; i++ {
			var err error
			if t.Call == "Decode" {
				var f *fit.File
				f, err = fit.Decode(src, opts...)
				res.files = append(res.files, f)
				res.Dumps = append(res.Dumps, dumpFile(f))
			} else {
				err = fit.CheckIntegrity(src, false)
			}
			setErr(err)
			res.SeqPos = append(res.SeqPos, srcPos())
			if err != nil {
				break
			}
		}
		res.NFiles = len(res.SeqPos)
		finish()
		return res
	}
	switch t.Call {
	case "Decode":
		f, err := fit.Decode(src, opts...)
		setErr(err)
		res.file = f
		res.Dump = dumpFile(f)
	case "DecodeChained":
		fs, err := fit.DecodeChained(src, opts...)
		setErr(err)
		res.files = fs
		res.NFiles = len(fs)
		for _, f := range fs {
			res.Dumps = append(res.Dumps, dumpFile(f))
		}
	case "CheckIntegrity":
		setErr(fit.CheckIntegrity(src, false))
	case "CheckIntegrityHeader":
		setErr(fit.CheckIntegrity(src, true))
	case "DecodeHeader":
		h, err := fit.DecodeHeader(src)
		setErr(err)
		res.hdr = h
		res.Dump = []string{"Header=" + canonStruct(reflect.ValueOf(h))}
	case "DecodeHeaderAndFileID":
		h, id, err := fit.DecodeHeaderAndFileID(src)
		setErr(err)
		res.hdr, res.fid = h, id
		res.Dump = []string{"Header=" + canonStruct(reflect.ValueOf(h)), "FileId=" + canonStruct(reflect.ValueOf(id))}
	case "HeaderCheckIntegrity":
		// Header.CheckIntegrity on the header struct that DecodeHeader-free
		// parsing of the medium yields (built from the raw bytes by the model).
		m := media[t.In]
		h, ok := headerFromBytes(m)
		if !ok {
			res.BuildErr = "medium too short for a header"
			break
		}
		setErr(h.CheckIntegrity())
	case "NewFile":
		ft, _ := strconv.Atoi(t.Arch)
		f, err := fit.NewFile(fit.FileType(ft), fit.NewHeader(fit.V20, false))
		setErr(err)
		if err == nil {
			res.Dump = dumpFile(f)
		}
	case "HeaderMarshalJSON":
		m := media[t.In]
		h, ok := headerFromBytes(m)
		if !ok {
			res.BuildErr = "medium too short for a header"
			break
		}
		n := t.Repeat
		if n < 1 {
			n = 1
		}
		for i := 0; i < n; i++ {
			b, err := h.MarshalJSON()
			setErr(err)
			res.Dump = append(res.Dump, "json="+string(b))
			res.kept = append(res.kept, b)
			res.keptS = append(res.keptS, string(b))
		}
	case "Encode":
		var f *fit.File
		if t.File != nil {
			var err error
			f, err = buildModelFile(t.File)
			if err != nil {
				res.BuildErr = err.Error()
				break
			}
		} else if strings.HasPrefix(t.In, "result:") {
			id, _ := strconv.Atoi(t.In[len("result:"):])
			p := prior[id]
			if p == nil || p.file == nil {
				res.BuildErr = "no prior File"
				break
			}
			f = p.file
		} else {
			fatalInfra("task %d: Encode without input", t.ID)
		}
		n := t.Repeat
		if n < 1 {
			n = 1
		}
		var bb *bytes.Buffer
		for i := 0; i < n; i++ {
			if i > 0 && strings.HasPrefix(t.Between, "proto:") {
				v, _ := strconv.Atoi(t.Between[len("proto:"):])
				f.Header.ProtocolVersion = byte(v)
			}
			w := &SimWriter{sched: sched, task: t.ID, failAt: t.WriteFail}
			var err error
			if strings.HasPrefix(t.Sink, "buffer") && sched == nil && t.WriteFail == 0 {
				// a *bytes.Buffer as the sink (also an io.ByteWriter, io.StringWriter, io.ReaderFrom)
				if bb == nil {
					bb = &bytes.Buffer{}
					if t.Sink == "buffer+" {
						bb.Write(sinkPrefix(1 + (t.ID*13+len(f.UnknownFields)+int(f.Header.Size))%61))
					}
				}
				before := append([]byte(nil), bb.Bytes()...)
				err = fit.Encode(bb, f, archOf(t.Arch))
				all := bb.Bytes()
				if len(all) >= len(before) && bytes.Equal(all[:len(before)], before) {
					w.buf = append([]byte(nil), all[len(before):]...)
				} else {
					w.buf = append([]byte(nil), all...) // bytes written earlier were touched: the stream is damaged
				}
				w.sizes = []int{len(w.buf)}
				if t.Sink == "buffer" {
					bb = nil
				}
			} else {
				err = fit.Encode(w, f, archOf(t.Arch))
			}
			setErr(err)
			res.Outs = append(res.Outs, w.buf)
			res.Repeats = i + 1
			if i > 0 && res.RepeatDiff == 0 && string(w.buf) != string(res.Outs[0]) && t.Between == "" {
				res.RepeatDiff = i
			}
			if i > 0 && t.Between != "" {
				res.Out = w.buf // the output after the header change is the one the oracle looks at
				res.WriteSz = w.sizes
			}
			if i == 0 {
				res.Out = w.buf
				res.WriteSz = w.sizes
			}
			if err != nil {
				break
			}
		}
		res.file = f
		res.PostHdrSize, res.PostHdrCRC, res.PostCRC = f.Header.DataSize, f.Header.CRC, f.CRC
	default:
		fatalInfra("unknown call %q", t.Call)
	}
	finish()
	return res
}

// headerFromBytes builds a fit.Header value from raw header bytes, the way a
// user holding a parsed header would have it (no library parsing involved).
func headerFromBytes(m []byte) (fit.Header, bool) {
	var h fit.Header
	if len(m) < 12 {
		return h, false
	}
	h.Size = m[0]
	h.ProtocolVersion = m[1]
	h.ProfileVersion = get16(m[2:4], false)
	h.DataSize = uint32(getN(m[4:8], false))
	copy(h.DataType[:], m[8:12])
	if h.Size == 14 && len(m) >= 14 {
		h.CRC = get16(m[12:14], false)
	}
	return h, true
}

// runScenarioSeq executes the tasks of a scenario one after another in this
// process (engines rx, pipe, hist). Order: History if given, else task order.
func runScenarioSeq(sc *Scenario) []*Result {
	resetSharedOpts()
	media := sc.buildMedia()
	order := sc.History
	if len(order) == 0 {
		for i := range sc.Tasks {
			order = append(order, i)
		}
	}
	prior := map[int]*Result{}
	var out []*Result
	for _, ti := range order {
		if ti < 0 || ti >= len(sc.Tasks) {
			continue
		}
		t := &sc.Tasks[ti]
		r := runTask(t, media, nil, prior)
		prior[t.ID] = r
		out = append(out, r)
	}
	recheckReturned(out)
	return out
}
