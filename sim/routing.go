package main

import (
	"fmt"
	"reflect"
	"strconv"
	"strings"

	"github.com/tormoder/fit"
)

// Routing model, derived by reflection from the PUBLIC container struct types:
// a message of type T belongs to the exported field whose element type is T;
// slices keep order, pointers keep the last. It does not read the add switches.

type host struct {
	Field  string
	Slice  bool
	OnFile bool
}

var supportedFileTypes = []byte{1, 2, 3, 4, 5, 6, 7, 9, 10, 11, 14, 15, 20, 28, 32, 34, 35}

func isSupportedFileType(t byte) bool {
	_, ok := fileTypeAccessor[t]
	return ok
}

var typeToMesg map[reflect.Type]uint16

func initTypeToMesg() {
	if typeToMesg != nil {
		return
	}
	typeToMesg = map[reflect.Type]uint16{}
	for _, m := range prof.Mesgs {
		if t := mesgType(m.Num); t != nil {
			typeToMesg[t] = m.Num
		}
	}
}

var hostsCache = map[byte]map[uint16]host{}
var containerFieldsCache = map[byte][]string{}

// hostsOf maps message number -> where a file of type ft keeps it.
func hostsOf(ft byte) map[uint16]host {
	if h, ok := hostsCache[ft]; ok {
		return h
	}
	initTypeToMesg()
	h := map[uint16]host{}
	f, err := fit.NewFile(fit.FileType(ft), fit.NewHeader(fit.V20, false))
	if err != nil || f == nil {
		hostsCache[ft] = nil
		return nil
	}
	fv := reflect.ValueOf(f).Elem()
	for _, name := range []string{"FileId", "FileCreator", "TimestampCorrelation"} {
		fld := fv.FieldByName(name)
		t := fld.Type()
		if t.Kind() == reflect.Ptr {
			t = t.Elem()
		}
		if mn, ok := typeToMesg[t]; ok {
			h[mn] = host{Field: name, OnFile: true}
		}
	}
	c := containerOf(f)
	if c.IsValid() {
		ct := c.Elem().Type()
		var names []string
		for i := 0; i < ct.NumField(); i++ {
			sf := ct.Field(i)
			if sf.PkgPath != "" {
				continue
			}
			names = append(names, sf.Name)
			t := sf.Type
			slice := false
			if t.Kind() == reflect.Slice {
				slice = true
				t = t.Elem()
			}
			if t.Kind() == reflect.Ptr {
				t = t.Elem()
			}
			if mn, ok := typeToMesg[t]; ok {
				h[mn] = host{Field: sf.Name, Slice: slice}
			}
		}
		containerFieldsCache[ft] = names
	}
	hostsCache[ft] = h
	return h
}

// hostedMesgNums lists the messages a file type keeps in its container (not on File), sorted.
func hostedMesgNums(ft byte) []uint16 {
	var out []uint16
	for mn, h := range hostsOf(ft) {
		if !h.OnFile {
			out = append(out, mn)
		}
	}
	sortU16(out)
	return out
}

func sortU16(a []uint16) {
	for i := 1; i < len(a); i++ {
		for j := i; j > 0 && a[j] < a[j-1]; j-- {
			a[j], a[j-1] = a[j-1], a[j]
		}
	}
}

// ---- expected content per container slot ----

type expectedFile struct {
	ft    byte
	slots map[string][]*ModelMsg // container field / File field -> messages (pointer slots: all, last wins)
}

func routeModel(ft byte, msgs []ModelMsg) *expectedFile {
	ef := &expectedFile{ft: ft, slots: map[string][]*ModelMsg{}}
	hs := hostsOf(ft)
	for i := range msgs {
		m := &msgs[i]
		h, ok := hs[m.Global]
		if !ok {
			continue
		}
		key := h.Field
		if h.OnFile {
			key = "File." + h.Field
		}
		ef.slots[key] = append(ef.slots[key], m)
	}
	return ef
}

type fieldDiff struct {
	Slot   string // container field
	Index  int
	Global uint16
	Field  string // struct field name
	SIndex int
	Want   string
	Got    string
	Shape  string // how the field travelled: kind/definition class/byte order, or "absent"
}

func (d fieldDiff) String() string {
	return fmt.Sprintf("%s[%d].%s: want %s got %s", d.Slot, d.Index, d.Field, clip(d.Want), clip(d.Got))
}

type compareOpts struct {
	skipAccum bool // leave accumulated destinations to C18
	onlyComp  bool
	arrayPad  bool // arrays are compared modulo trailing invalid padding
	localWall bool // local timestamps (also unset ones) are compared by wall-clock reading
}

// canonEqual compares an expected canonical value with an observed one;
// expected values starting with 'w' are wall-clock-only times.
func canonEqual(want, got string) bool {
	if want == got {
		return true
	}
	if strings.HasPrefix(want, "w") && strings.HasPrefix(got, "t") {
		body := got[1:]
		i := strings.LastIndexByte(body, '+')
		if i < 0 {
			return false
		}
		unix, e1 := strconv.ParseInt(body[:i], 10, 64)
		off, e2 := strconv.ParseInt(body[i+1:], 10, 64)
		w, e3 := strconv.ParseInt(want[1:], 10, 64)
		return e1 == nil && e2 == nil && e3 == nil && unix+off == w
	}
	return false
}

// slotValue returns the messages actually held in a slot of the decoded file.
func slotValues(f *fit.File, ft byte, key string) (vals []reflect.Value, ok bool) {
	if strings.HasPrefix(key, "File.") {
		fld := reflect.ValueOf(f).Elem().FieldByName(key[5:])
		if !fld.IsValid() {
			return nil, false
		}
		if fld.Kind() == reflect.Ptr {
			if fld.IsNil() {
				return nil, true
			}
			return []reflect.Value{fld.Elem()}, true
		}
		return []reflect.Value{fld}, true
	}
	c := containerOf(f)
	if !c.IsValid() {
		return nil, false
	}
	fld := c.Elem().FieldByName(key)
	if !fld.IsValid() {
		return nil, false
	}
	switch fld.Kind() {
	case reflect.Slice:
		for i := 0; i < fld.Len(); i++ {
			e := fld.Index(i)
			if e.Kind() == reflect.Ptr {
				if e.IsNil() {
					return nil, false
				}
				e = e.Elem()
			}
			vals = append(vals, e)
		}
		return vals, true
	case reflect.Ptr:
		if fld.IsNil() {
			return nil, true
		}
		return []reflect.Value{fld.Elem()}, true
	}
	return nil, false
}

// compareFile checks every slot of the decoded file against the routed model
// messages; returns the differences (bounded).
func compareFile(f *fit.File, ft byte, msgs []ModelMsg, co compareOpts, st *Stats) []fieldDiff {
	var diffs []fieldDiff
	ef := routeModel(ft, msgs)
	hs := hostsOf(ft)
	acc := newAccState()
	// accumulators follow stream order over all records, so expand in stream order first
	expanded := map[*ModelMsg]*expMsg{}
	for i := range msgs {
		m := &msgs[i]
		if _, hosted := hs[m.Global]; !hosted {
			continue
		}
		expanded[m] = expandModelMsg(m, acc)
	}
	seenSlot := map[string]bool{}
	var mns []uint16
	for mn := range hs {
		mns = append(mns, mn)
	}
	sortU16(mns)
	for _, mn := range mns {
		h := hs[mn]
		key := h.Field
		if h.OnFile {
			key = "File." + h.Field
		}
		if seenSlot[key] {
			continue
		}
		seenSlot[key] = true
		want := ef.slots[key]
		if !h.Slice && len(want) > 1 {
			want = want[len(want)-1:]
		}
		got, ok := slotValues(f, ft, key)
		if !ok {
			diffs = append(diffs, fieldDiff{Slot: key, Global: mn, Field: "<slot>", Want: "accessible", Got: "inaccessible"})
			continue
		}
		if key == "File.FileId" && len(want) == 0 {
			continue
		}
		if len(got) != len(want) {
			diffs = append(diffs, fieldDiff{Slot: key, Global: mn, Field: "<count>", Want: strconv.Itoa(len(want)), Got: strconv.Itoa(len(got))})
			continue
		}
		for i, m := range want {
			em := expanded[m]
			gv := got[i]
			for _, pf := range prof.byMesg[m.Global] {
				if pf.SIndex >= gv.NumField() {
					continue
				}
				if em.dontCare[pf.SIndex] {
					continue
				}
				if co.skipAccum && em.accum[pf.SIndex] {
					continue
				}
				if co.onlyComp && !em.comp[pf.SIndex] {
					continue
				}
				w, present := em.fields[pf.SIndex]
				if !present {
					w = invalidCanon(pf)
					if co.localWall && pf.Kind == kindLocal {
						w = "w" + itoa(fitEpochUnix)
					}
				} else if st != nil {
					st.Field(m.Global, pf.Num)
				}
				g := canonValue(gv.Field(pf.SIndex))
				if co.arrayPad && pf.Array && !baseOf(pf.Base).String {
					w, g = stripTrailingInvalid(pf, w), stripTrailingInvalid(pf, g)
				}
				if !canonEqual(w, g) {
					diffs = append(diffs, fieldDiff{Slot: key, Index: i, Global: m.Global, Field: pf.Name, SIndex: pf.SIndex, Want: w, Got: g, Shape: fieldShape(m, em, pf)})
					if len(diffs) > 50 {
						return diffs
					}
				}
			}
		}
	}
	return diffs
}

// fieldShape abstracts how a field reached the message, for violation classes.
func fieldShape(m *ModelMsg, em *expMsg, pf *PField) string {
	kind := "scalar"
	pb := baseOf(pf.Base)
	switch {
	case pf.Kind == kindUTC || pf.Kind == kindLocal:
		kind = "time"
	case pf.Kind == kindLat || pf.Kind == kindLng:
		kind = "coord"
	case pb.String && pf.Array:
		kind = "stringarray"
	case pb.String:
		kind = "string"
	case pf.Array:
		kind = "array"
	}
	if em.comp[pf.SIndex] {
		return kind + "/component-destination"
	}
	fd, onWire := m.FD[pf.SIndex]
	if !onWire {
		if _, set := em.fields[pf.SIndex]; set {
			return kind + "/set-by-rule"
		}
		return kind + "/absent"
	}
	db := baseOf(byte(fd[2]))
	dc := "full"
	switch {
	case db == nil:
		dc = "unknown-type"
	case !pb.String && !pf.Array && db.Size < pb.Size && db.Signed:
		dc = "narrow-signed"
	case !pb.String && !pf.Array && db.Size < pb.Size:
		dc = "narrow-unsigned"
	case byte(fd[2]) != pf.Base:
		dc = "sibling"
	}
	order := "le"
	if m.BE {
		order = "be"
	}
	return kind + "/" + dc + "/" + order
}
