package main

import (
	"encoding/json"
	"fmt"
	"os"
	"os/exec"
	"path/filepath"
	"sort"
	"strconv"
	"strings"
	"sync"
	"sync/atomic"
	"time"
)

// ---- what an oracle reports ----

type Violation struct {
	Property  string `json:"property"`
	Class     string `json:"class"`               // stable violation class (property/oracle/location)
	Detail    string `json:"detail"`              // human readable
	Signature string `json:"signature,omitempty"` // set when the oracle recognises one specific, listed wrong behaviour
}

// Stats are accumulated per worker and merged by the parent.
type Stats struct {
	Evaluations int               `json:"evaluations"` // entry-point executions
	Scenarios   int               `json:"scenarios"`
	Nontrivial  int               `json:"nontrivial"`
	SeamEvents  int64             `json:"seam_events"`
	Faults      map[string]int    `json:"faults"`
	Probes      map[string]int    `json:"probes"`
	Keys        []uint64          `json:"keys"`   // distinct coverage keys among non-trivial scenarios
	Fields      []uint32          `json:"fields"` // (mesg<<8|field) profile entries reached
	Sched       []uint64          `json:"sched"`  // distinct interleavings (conc)
	Samples     []json.RawMessage `json:"samples"`

	keys   map[uint64]struct{}
	fields map[uint32]struct{}
	sched  map[uint64]struct{}
	trace  uint64
}

// Trace folds values into the determinism witness of this worker.
func (s *Stats) Trace(vals ...uint64) {
	for _, v := range vals {
		s.trace = (s.trace ^ v) * 0x100000001b3
		s.trace ^= s.trace >> 29
	}
}

func newStats() *Stats {
	return &Stats{Faults: map[string]int{}, Probes: map[string]int{}, keys: map[uint64]struct{}{}, fields: map[uint32]struct{}{}, sched: map[uint64]struct{}{}}
}

func (s *Stats) Key(parts ...interface{}) {
	s.keys[hashStr(fmt.Sprint(parts...))] = struct{}{}
}
func (s *Stats) KeyHash(h uint64)       { s.keys[h] = struct{}{} }
func (s *Stats) Fault(kind string)      { s.Faults[kind]++ }
func (s *Stats) FaultN(k string, n int) { s.Faults[k] += n }
func (s *Stats) Probe(name string)      { s.Probes[name]++ }
func (s *Stats) ProbeIf(c bool, n string) {
	if c {
		s.Probes[n]++
	}
}
func (s *Stats) Field(m uint16, n byte) { s.fields[uint32(m)<<8|uint32(n)] = struct{}{} }

// Observe folds the seam-level observations of one executed call.
func (s *Stats) Observe(r *Result) {
	s.Evaluations++
	s.SeamEvents += int64(r.ReadCalls + len(r.WriteSz) + r.LogLines)
	s.Trace(r.TraceHash, hashStr(r.ErrClass), hashStr(r.Panic), dumpHash(r.Dump), uint64(r.Delivered), uint64(r.LogLines), r.LogHash)
	for _, d := range r.Dumps {
		s.Trace(dumpHash(d))
	}
	if r.ShortReads > 0 {
		s.FaultN("chunk.short", r.ShortReads)
	}
	if r.Stutters > 0 {
		s.FaultN("chunk.stutter", r.Stutters)
	}
	if r.EOFData && !r.CutFired {
		s.Fault("chunk.eof_with_data")
	}
	if r.CutFired {
		if r.EOFData {
			s.Fault("cut.eof_with_data")
		} else {
			s.Fault("cut.eof")
		}
	}
	if r.FailFired {
		switch {
		case r.FailData:
			s.Fault("fail.with_data")
		case r.ErrClass == "io:eof":
			s.Fault("fail.unexpected_eof")
		default:
			s.Fault("fail.sticky")
		}
	}
	for _, sz := range r.WriteSz {
		if sz == 0 && r.Call == "Encode" && r.ErrClass == "io:sim" {
			s.Fault("write.fail")
			break
		}
	}
}

func (s *Stats) seal() {
	s.Keys = s.Keys[:0]
	for k := range s.keys {
		s.Keys = append(s.Keys, k)
	}
	sort.Slice(s.Keys, func(i, j int) bool { return s.Keys[i] < s.Keys[j] })
	s.Fields = s.Fields[:0]
	for k := range s.fields {
		s.Fields = append(s.Fields, k)
	}
	sort.Slice(s.Fields, func(i, j int) bool { return s.Fields[i] < s.Fields[j] })
	s.Sched = s.Sched[:0]
	for k := range s.sched {
		s.Sched = append(s.Sched, k)
	}
	sort.Slice(s.Sched, func(i, j int) bool { return s.Sched[i] < s.Sched[j] })
}

func (s *Stats) merge(o *Stats) {
	s.Evaluations += o.Evaluations
	s.Scenarios += o.Scenarios
	s.Nontrivial += o.Nontrivial
	s.SeamEvents += o.SeamEvents
	for k, v := range o.Faults {
		s.Faults[k] += v
	}
	for k, v := range o.Probes {
		s.Probes[k] += v
	}
	for _, k := range o.Keys {
		s.keys[k] = struct{}{}
	}
	for _, k := range o.Fields {
		s.fields[k] = struct{}{}
	}
	for _, k := range o.Sched {
		s.sched[k] = struct{}{}
	}
	for k := range o.keys {
		s.keys[k] = struct{}{}
	}
	for k := range o.fields {
		s.fields[k] = struct{}{}
	}
	for k := range o.sched {
		s.sched[k] = struct{}{}
	}
}

// ---- property interface ----

type Prop interface {
	ID() string
	Engine() string // rx | pipe | hist | conc
	Level() string  // exploration | fault_enumeration
	// Prepare builds pools; returns the number of scenarios for this tier.
	Prepare(seed uint64, tier string) int
	// Gen returns the closed scenario idx (nil = index unused).
	Gen(idx int) *Scenario
	// Check executes the scenario against the real code and applies the oracle.
	Check(sc *Scenario, st *Stats) []Violation
	Rule() string
	Assumptions() []string
	ProbeNames() []string
}

var props = map[string]Prop{}

func register(p Prop) { props[p.ID()] = p }

func propIDs() []string {
	var ids []string
	for k := range props {
		ids = append(ids, k)
	}
	sort.Strings(ids)
	return ids
}

// ---- worker ----

type foundViolation struct {
	Index    int             `json:"index"`
	V        Violation       `json:"v"`
	Scenario json.RawMessage `json:"scenario"`
	W        int             `json:"w"`
	NW       int             `json:"nw"`
	Tier     string          `json:"tier"`
}

type workerResult struct {
	Stats      *Stats           `json:"stats"`
	Violations []foundViolation `json:"violations"`
	ClassCount map[string]int   `json:"class_count"`
	TraceHash  uint64           `json:"trace_hash"` // determinism witness over everything executed
	Done       bool             `json:"done"`
}

var curIndex int64 = -1

const maxStoredViolationsPerWorker = 40

func runWorker(p Prop, seed uint64, tier string, w, nw int, from, to int, outPath string, careful string) {
	n := p.Prepare(seed, tier)
	if to < 0 || to > n {
		to = n
	}
	res := &workerResult{Stats: newStats(), ClassCount: map[string]int{}}
	st := res.Stats
	flush := func(done bool) {
		res.Done = done
		res.TraceHash = st.trace
		st.seal()
		b, _ := json.Marshal(res)
		os.WriteFile(outPath+".tmp", b, 0o644)
		os.Rename(outPath+".tmp", outPath)
	}
	// in-process watchdog for loops that never reach a seam
	go func() {
		last, lastChange := int64(-2), time.Now()
		for {
			time.Sleep(500 * time.Millisecond)
			c := atomic.LoadInt64(&curIndex)
			if c != last {
				last, lastChange = c, time.Now()
				continue
			}
			if c >= 0 && time.Since(lastChange) > 60*time.Second {
				sc := p.Gen(int(c))
				v := Violation{Property: p.ID(), Class: p.ID() + "/hang-without-seam", Detail: "no progress for 60 s inside one scenario (loop that never reaches a Read/Write/Log call)"}
				res.Violations = append(res.Violations, foundViolation{Index: int(c), V: v, Scenario: sc.JSON()})
				res.ClassCount[v.Class+"|"]++
				flush(false)
				os.Exit(0)
			}
		}
	}()
	sampleEvery := (to - from) / nw / 3
	if sampleEvery < 1 {
		sampleEvery = 1
	}
	seen := 0
	for i := from; i < to; i++ {
		if i%nw != w {
			continue
		}
		sc := p.Gen(i)
		if sc == nil {
			continue
		}
		if careful != "" {
			os.WriteFile(careful, []byte(strconv.Itoa(i)), 0o644)
		}
		atomic.StoreInt64(&curIndex, int64(i))
		st.Scenarios++
		vs := p.Check(sc, st)
		if seen%sampleEvery == 0 && len(st.Samples) < 3 && w == 0 {
			js := sc.JSON()
			if len(js) < 6000 {
				st.Samples = append(st.Samples, js)
			}
		}
		seen++
		for _, v := range vs {
			res.ClassCount[v.Class+"|"+v.Signature]++
			if res.ClassCount[v.Class+"|"+v.Signature] <= 2 && len(res.Violations) < maxStoredViolationsPerWorker {
				res.Violations = append(res.Violations, foundViolation{Index: i, V: v, Scenario: sc.JSON(), W: w, NW: nw, Tier: tier})
			}
		}
	}
	atomic.StoreInt64(&curIndex, -1)
	flush(true)
}

// ---- parent ----

type knownFinding struct {
	ID        string `json:"id"`
	Property  string `json:"property"`
	Key       string `json:"key"`
	Signature string `json:"signature"`
	What      string `json:"what"`
}

type knownFile struct {
	Findings []knownFinding `json:"findings"`
	Fixed    []string       `json:"fixed"`
}

func verifRoot() string {
	if r := os.Getenv("VERIF_ROOT"); r != "" {
		return r
	}
	return "/verif"
}

// outRoot is where evidence and replay files go (default: the verif root;
// FITSIM_OUT redirects them for runs against scratch copies of the repository).
func outRoot() string {
	if r := os.Getenv("FITSIM_OUT"); r != "" {
		return r
	}
	return verifRoot()
}

func loadKnown() *knownFile {
	kf := &knownFile{}
	b, err := os.ReadFile(filepath.Join(verifRoot(), "known_findings.json"))
	if err != nil {
		return kf
	}
	if err := json.Unmarshal(b, kf); err != nil {
		fatalInfra("known_findings.json: %v", err)
	}
	return kf
}

func (kf *knownFile) match(v Violation) *knownFinding {
	if v.Signature == "" {
		return nil
	}
	for i := range kf.Findings {
		k := &kf.Findings[i]
		if k.Property == v.Property && k.Signature == v.Signature && (k.Key == v.Class || (strings.HasSuffix(k.Key, "*") && strings.HasPrefix(v.Class, strings.TrimSuffix(k.Key, "*")))) {
			return k
		}
	}
	return nil
}

type checkOutcome struct {
	stats      *Stats
	violations []foundViolation
	classCount map[string]int
	wall       float64
	n          int
}

func selfExe() string {
	e, err := os.Executable()
	if err != nil {
		fatalInfra("executable path: %v", err)
	}
	return e
}

// runBatch fans one (property, seed, tier) batch out over worker processes.
func runBatch(p Prop, seed uint64, tier string, workers int, capSeconds int) *checkOutcome {
	start := time.Now()
	n := p.Prepare(seed, tier)
	dir, err := os.MkdirTemp(filepath.Join(verifRoot(), ".build"), "run-")
	if err != nil {
		fatalInfra("tmp dir: %v", err)
	}
	defer os.RemoveAll(dir)
	defer os.RemoveAll(filepath.Join(verifRoot(), ".build", "baselines-"+filepath.Base(dir)))
	if workers > n {
		workers = n
	}
	if workers < 1 {
		workers = 1
	}
	type wr struct {
		res *workerResult
		err error
	}
	results := make([]wr, workers)
	var wg sync.WaitGroup
	deadline := time.Now().Add(time.Duration(capSeconds) * time.Second)
	for w := 0; w < workers; w++ {
		wg.Add(1)
		go func(w int) {
			defer wg.Done()
			out := filepath.Join(dir, fmt.Sprintf("w%d.json", w))
			run := func(careful string) error {
				args := []string{"worker", "-prop", p.ID(), "-tier", tier, "-seed", strconv.FormatUint(seed, 10),
					"-w", strconv.Itoa(w), "-nw", strconv.Itoa(workers), "-out", out}
				if careful != "" {
					args = append(args, "-careful", careful)
				}
				cmd := exec.Command(selfExe(), args...)
				cmd.Stderr = os.Stderr
				cmd.Env = append(os.Environ(), "GOMAXPROCS=2", "FITSIM_RUN_ID="+filepath.Base(dir))
				if err := cmd.Start(); err != nil {
					return err
				}
				done := make(chan error, 1)
				go func() { done <- cmd.Wait() }()
				select {
				case err := <-done:
					return err
				case <-time.After(time.Until(deadline)):
					cmd.Process.Kill()
					return fmt.Errorf("wall-clock cap of %d s hit", capSeconds)
				}
			}
			err := run("")
			b, rerr := os.ReadFile(out)
			if err != nil || rerr != nil {
				if err != nil && strings.Contains(err.Error(), "wall-clock cap") {
					results[w] = wr{nil, err}
					return
				}
				// worker died (fatal error in the library?): find the index in careful mode
				cf := filepath.Join(dir, fmt.Sprintf("careful%d", w))
				err2 := run(cf)
				b, rerr = os.ReadFile(out)
				if err2 != nil || rerr != nil {
					idx := -1
					if ib, e := os.ReadFile(cf); e == nil {
						idx, _ = strconv.Atoi(string(ib))
					}
					if idx >= 0 {
						sc := p.Gen(idx)
						v := Violation{Property: p.ID(), Class: p.ID() + "/process-death", Detail: fmt.Sprintf("worker process died while executing this scenario: %v", err2)}
						results[w] = wr{&workerResult{Stats: newStats(), ClassCount: map[string]int{v.Class + "|": 1},
							Violations: []foundViolation{{Index: idx, V: v, Scenario: sc.JSON()}}}, nil}
						return
					}
					results[w] = wr{nil, fmt.Errorf("worker %d failed: %v / %v", w, err, err2)}
					return
				}
			}
			var r workerResult
			if e := json.Unmarshal(b, &r); e != nil {
				results[w] = wr{nil, e}
				return
			}
			results[w] = wr{&r, nil}
		}(w)
	}
	wg.Wait()
	oc := &checkOutcome{stats: newStats(), classCount: map[string]int{}, n: n}
	for w, r := range results {
		if r.err != nil || r.res == nil {
			fatalInfra("batch %s seed %d: worker %d: %v", p.ID(), seed, w, r.err)
		}
		oc.stats.merge(r.res.Stats)
		if len(oc.stats.Samples) < 3 {
			oc.stats.Samples = append(oc.stats.Samples, r.res.Stats.Samples...)
		}
		oc.violations = append(oc.violations, r.res.Violations...)
		for k, v := range r.res.ClassCount {
			oc.classCount[k] += v
		}
	}
	sort.SliceStable(oc.violations, func(i, j int) bool { return oc.violations[i].Index < oc.violations[j].Index })
	oc.wall = time.Since(start).Seconds()
	return oc
}
