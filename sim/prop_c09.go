package main

import (
	"fmt"
	"sort"
	"strings"
)

// C09 - concurrent use on independent inputs is race-free and equals
// sequential use (engine conc: seeded cooperative scheduler, -race build,
// HB-free hand-off; fresh-process baselines).

type propC09 struct {
	seed  uint64
	tier  string
	count int
	pool  *histPool
}

func init() { register(&propC09{}) }

func (p *propC09) ID() string     { return "C09" }
func (p *propC09) Engine() string { return "conc" }
func (p *propC09) Level() string  { return "exploration" }
func (p *propC09) Rule() string {
	return "scenario = 2-8 tasks (real goroutines), each one call (Decode with any option set, DecodeChained, CheckIntegrity, DecodeHeader, DecodeHeaderAndFileID, Encode of a model File, Header.MarshalJSON) on its own SimReader / SimWriter / File over a shared pool of inputs (equal bytes may be given to several tasks); every task is parked at every Read/Write/Log call and exactly one is released at a time, chosen by the scenario's explicit task schedule (seeded: uniform, round-robin, long bursts, starve-one) with a deterministic tail; executed in a fresh process of the -race binary. Oracle: no race report; each task's result equals the same call performed alone in a fresh process. " +
		"key = hash of the realised task schedule x call kinds; non-trivial when a context switch happened while >= 2 tasks were unfinished"
}
func (p *propC09) Assumptions() []string {
	return []string{
		"interleavings are at seam-call granularity: code between two Read/Write/Log calls is atomic in the simulated schedules; the race detector still flags conflicting accesses because the hand-off creates no happens-before edge",
		"sync.Pool use (json.go) is invisible to the race detector by design",
		"known finding D11: races whose innermost library frames are in (*uint32Accumulator).accumulate / (*RecordMsg).expandComponents, and Distance values shifted by a constant, are reported as KNOWN-FINDING",
	}
}
func (p *propC09) ProbeNames() []string {
	return []string{"two tasks on equal bytes", "two tasks decoding component-bearing inputs", "Encode overlapping Decode", "logger yield taken", ">= 100 context switches", "task starved until the others finished"}
}

func (p *propC09) Prepare(seed uint64, tier string) int {
	p.seed, p.tier = seed, tier
	p.pool = buildHistPool(seed, false)
	p.count = 4000
	if isThorough(tier) {
		p.count = 50000
	}
	return p.count
}

func (p *propC09) Gen(idx int) *Scenario {
	r := NewRng(p.seed, "C09", idx)
	hp := p.pool
	sc := &Scenario{V: 1, Property: "C09", Engine: "conc", Seed: p.seed, Index: idx}
	n := r.Range(2, 4)
	if r.Chance(1, 4) {
		n = r.Range(5, 8)
	}
	sharedOpt := r.Chance(1, 3)
	shortPlans := []ReadPlan{{Tail: "k64"}, {Tail: "k13"}, {Tail: "k255"}, {Tail: "one"}, {Tail: "k4096"}}
	var acc []string
	for _, id := range hp.singles {
		if hp.accum[id] {
			acc = append(acc, id)
		}
	}
	for i := 0; i < n; i++ {
		t := genOp(r, hp, i, nil, nil)
		if t.Call == "Encode" && t.File == nil {
			t = Task{ID: i, Call: "Encode", File: hp.files[r.Intn(len(hp.files))], Arch: "le"}
		}
		if i > 0 && r.Chance(1, 3) && sc.Tasks[i-1].In != "" {
			// same input as the previous task: two tasks inside the same message kinds
			t = sc.Tasks[i-1]
			t.ID = i
		}
		if i < 2 && len(acc) > 0 && r.Chance(1, 4) {
			t = Task{ID: i, Call: "Decode", In: acc[r.Intn(len(acc))]}
		}
		if t.In != "" && t.Call != "HeaderMarshalJSON" {
			t.Read = shortPlans[r.Intn(len(shortPlans))]
			if t.Read.Tail == "one" && r.Chance(2, 3) {
				t.Read = ReadPlan{Tail: "k32"} // keep 1-byte plans rare: they multiply hand-offs
			}
		}
		if t.Repeat > 4 {
			t.Repeat = 4
		}
		if sharedOpt && strings.HasPrefix(t.Call, "Decode") && t.Call != "DecodeHeader" && t.Call != "DecodeHeaderAndFileID" {
			// one option value handed to concurrent calls (a package-level options slice)
			t.Opts = []string{"unknownFields", "unknownMessages"}
			t.SharedOpts = true
		} else {
			t.SharedOpts = false
		}
		sc.Tasks = append(sc.Tasks, t)
	}
	// explicit schedule prefix
	pol := r.Intn(4)
	m := r.Range(20, 400)
	cur := 0
	for i := 0; i < m; i++ {
		switch pol {
		case 0: // uniform
			cur = r.Intn(n)
		case 1: // round robin
			cur = (cur + 1) % n
		case 2: // long bursts
			if r.Chance(1, 12) {
				cur = r.Intn(n)
			}
		case 3: // starve task 0
			cur = 1 + r.Intn(n-1)
		}
		sc.Schedule = append(sc.Schedule, cur)
	}
	sc.SchedPol = []string{"rr", "lowest"}[r.Intn(2)]
	sc.Params = map[string]string{"policy": []string{"uniform", "round-robin", "bursts", "starve-0"}[pol]}
	sc.Media = usedMedia(hp.media, sc.Tasks)
	return sc
}

type raceReport struct {
	frames [2]string
	text   string
}

// parseRaceLog splits the race detector's log into reports and extracts the
// innermost library frame of each of the two conflicting accesses.
func parseRaceLog(log string) []raceReport {
	var out []raceReport
	for _, blk := range strings.Split(log, "WARNING: DATA RACE") {
		if !strings.Contains(blk, " by goroutine ") {
			continue
		}
		var rr raceReport
		rr.text = blk
		section := -1
		lines := strings.Split(blk, "\n")
		for _, ln := range lines {
			t := strings.TrimSpace(ln)
			switch {
			case strings.HasPrefix(t, "Read at"), strings.HasPrefix(t, "Write at"), strings.HasPrefix(t, "Atomic"):
				section = 0
			case strings.HasPrefix(t, "Previous "):
				section = 1
			case strings.HasPrefix(t, "Goroutine "):
				section = -1
			case section >= 0 && rr.frames[section] == "" && strings.HasPrefix(t, "github.com/tormoder/fit") && strings.HasSuffix(t, ")"):
				f := strings.TrimPrefix(t, "github.com/tormoder/fit")
				f = strings.TrimPrefix(f, ".")
				if i := strings.LastIndex(f, "("); i > 0 && strings.HasSuffix(f, "()") {
					f = f[:i]
				}
				rr.frames[section] = f
			}
		}
		out = append(out, rr)
	}
	return out
}

func isAccumFrame(f string) bool {
	return strings.Contains(f, "uint32Accumulator).accumulate") || strings.Contains(f, "RecordMsg).expandComponents") || strings.Contains(f, "uint32NewAccumulator")
}

func (p *propC09) Check(sc *Scenario, st *Stats) []Violation {
	var vs []Violation
	if len(sc.Tasks) < 1 {
		return nil
	}
	for _, t := range sc.Tasks {
		if strings.HasPrefix(t.In, "result:") {
			return nil
		}
	}
	for i := range sc.Schedule {
		if sc.Schedule[i] < 0 || sc.Schedule[i] >= len(sc.Tasks) {
			return nil
		}
	}
	pr := runFresh(sc, true)
	if pr.Died != "" {
		return []Violation{{Property: "C09", Class: "C09/process-died", Detail: pr.Died}}
	}
	res := pr.Out.Results
	ci := pr.Out.Conc
	if ci != nil {
		st.SeamEvents += int64(ci.Switches)
		st.FaultN("task.switch", ci.Overlap)
		if ci.Overlap > 0 {
			st.Nontrivial++
			var calls []string
			for _, t := range sc.Tasks {
				calls = append(calls, t.Call)
			}
			sort.Strings(calls)
			st.sched[ci.Hash] = struct{}{}
			st.KeyHash(ci.Hash ^ hashStr(strings.Join(calls, ",")))
		}
		st.ProbeIf(ci.Switches >= 100, ">= 100 context switches")
		st.Trace(ci.Hash, uint64(ci.Switches))
	}
	// probes
	ins := map[string]int{}
	ndec, nenc, nacc := 0, 0, 0
	for _, t := range sc.Tasks {
		if t.In != "" {
			ins[t.In]++
		}
		if strings.HasPrefix(t.Call, "Decode") {
			ndec++
			if p.pool != nil && p.pool.accum[t.In] {
				nacc++
			}
		}
		if t.Call == "Encode" {
			nenc++
		}
	}
	for _, c := range ins {
		if c >= 2 {
			st.Probe("two tasks on equal bytes")
			break
		}
	}
	st.ProbeIf(nacc >= 2, "two tasks decoding component-bearing inputs")
	st.ProbeIf(ndec > 0 && nenc > 0, "Encode overlapping Decode")
	st.ProbeIf(sc.Params["policy"] == "starve-0", "task starved until the others finished")
	// (i) race reports
	seen := map[string]bool{}
	for _, rr := range parseRaceLog(pr.RaceLog) {
		a, b := rr.frames[0], rr.frames[1]
		if a == "" && b == "" {
			fatalInfra("C09: race report without a library frame (harness race?):\n%s", tail(rr.text, 1500))
		}
		if a > b {
			a, b = b, a
		}
		cls := "C09/race/" + a + "|" + b
		sig := ""
		if (isAccumFrame(a) || a == "") && (isAccumFrame(b) || b == "") {
			sig = "race:accumulate"
		}
		if seen[cls] {
			continue
		}
		seen[cls] = true
		vs = append(vs, Violation{Property: "C09", Class: cls, Signature: sig, Detail: "data race between concurrent calls on independent inputs: " + a + " / " + b})
	}
	// (ii) results equal the solo fresh-process baseline
	for i, r := range res {
		if r == nil {
			continue
		}
		st.Observe(r)
		st.ProbeIf(r.LogLines > 0, "logger yield taken")
		base := baselineFor(sc, i, st)
		c, d, sig := compareWithBaseline(r, base)
		if c == "" {
			continue
		}
		if c == "baseline-died" {
			fatalInfra("C09: %s", d)
		}
		cls := "C09/" + r.Call + "/" + c
		if seen[cls+sig] {
			continue
		}
		seen[cls+sig] = true
		vs = append(vs, Violation{Property: "C09", Class: cls, Signature: sig, Detail: fmt.Sprintf("task %d (%s %s) under concurrency: %s", i, r.Call, sc.Tasks[i].In, d)})
	}
	return vs
}
