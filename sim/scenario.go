package main

import (
	"encoding/hex"
	"encoding/json"
	"fmt"
	"os"
	"path/filepath"
)

// A Scenario is one fully explicit simulated execution (DESIGN Appendix A).
// Executing it draws no random numbers and reads no clock.

type Flip struct {
	Bit  int    `json:"bit"`  // first flipped bit, LSB-first numbering: 8*byte + weight
	Len  int    `json:"len"`  // burst length in bits (1..16)
	Mask uint32 `json:"mask"` // bit j set = flip bit Bit+j; bits 0 and Len-1 are set
}

type EncodeSpec struct {
	File *ModelFile `json:"file"`
	Arch string     `json:"arch"`
	// Prefix: the *bytes.Buffer handed to Encode already holds this many bytes
	Prefix int `json:"prefix,omitempty"`
}

type Medium struct {
	ID      string      `json:"id"`
	Records *RecStream  `json:"records,omitempty"`
	Hex     string      `json:"hex,omitempty"`
	Corpus  string      `json:"corpus,omitempty"` // path relative to the repository root
	Encode  *EncodeSpec `json:"encode,omitempty"` // bytes = output of the real Encode
	Chain   []string    `json:"chain,omitempty"`
	Tail    string      `json:"tail,omitempty"`
	Flips   []Flip      `json:"flips,omitempty"`
}

type Task struct {
	ID   int      `json:"id"`
	Call string   `json:"call"`
	Opts []string `json:"opts,omitempty"` // logger | unknownFields | unknownMessages
	// SharedOpts: the unknown-field / unknown-message option values are built
	// once per scenario and the same values are passed to every such task
	SharedOpts bool       `json:"shared_opts,omitempty"`
	In         string     `json:"in,omitempty"`   // medium id, or "result:<task id>" for Encode
	File       *ModelFile `json:"file,omitempty"` // Encode of a model-built File
	Arch       string     `json:"arch,omitempty"`
	Repeat     int        `json:"repeat,omitempty"`
	Read       ReadPlan   `json:"read"`
	// WriteFail: the n-th Write call of the sink fails (Encode only; 0 = never)
	WriteFail int `json:"write_fail,omitempty"`
	// Seq: the call is made this many times in a row on the same reader
	// (Decode / CheckIntegrity over a concatenation of files, one file per call)
	Seq int `json:"seq,omitempty"`
	// Sink "buffer": Encode writes into a *bytes.Buffer instead of the simulated
	// writer; "buffer+": the buffer already holds bytes, and repeated calls
	// append to the same buffer (a caller building a chained stream)
	Sink string `json:"sink,omitempty"`
	// Between: applied to the File between repeated Encode calls, e.g. "proto:16"
	// (set Header.ProtocolVersion) - a header that is re-used after a change
	Between string `json:"between,omitempty"`
}

type Expect struct {
	Class string `json:"class"`
}

type Scenario struct {
	V        int               `json:"v"`
	Property string            `json:"property"`
	Engine   string            `json:"engine"`
	Family   string            `json:"family,omitempty"`
	Seed     uint64            `json:"seed"`
	Index    int               `json:"index"`
	Repo     string            `json:"repo,omitempty"`
	Profile  string            `json:"profile,omitempty"`
	Media    []Medium          `json:"media,omitempty"`
	Tasks    []Task            `json:"tasks"`
	History  []int             `json:"history,omitempty"`
	Schedule []int             `json:"task_schedule,omitempty"`
	SchedPol string            `json:"task_schedule_tail,omitempty"` // rr | lowest
	Params   map[string]string `json:"params,omitempty"`             // oracle parameters (explicit, no hidden state)
	Expect   *Expect           `json:"expect,omitempty"`
	// Prefix: the violation showed only after the scenarios a worker process had
	// executed before this one (state left behind in the process). Replay then
	// re-executes exactly that share first: indices i < Upto with i % NW == W.
	Prefix *PrefixSpec `json:"after_scenarios,omitempty"`
}

type PrefixSpec struct {
	Tier string `json:"tier"`
	W    int    `json:"w"`
	NW   int    `json:"nw"`
	Upto int    `json:"upto"`
}

var repoRoot = func() string {
	if r := os.Getenv("FITSIM_REPO"); r != "" {
		return r
	}
	return "/repo"
}()

var corpusCache = map[string][]byte{}

func readCorpus(rel string) []byte {
	if b, ok := corpusCache[rel]; ok {
		return b
	}
	b, err := os.ReadFile(filepath.Join(repoRoot, rel))
	if err != nil {
		fatalInfra("corpus file: %v", err)
	}
	corpusCache[rel] = b
	return b
}

func applyFlips(b []byte, flips []Flip) []byte {
	if len(flips) == 0 {
		return b
	}
	out := append([]byte(nil), b...)
	for _, f := range flips {
		for j := 0; j < f.Len && j < 32; j++ {
			if f.Mask>>uint(j)&1 == 0 {
				continue
			}
			bit := f.Bit + j
			if bit/8 < len(out) {
				out[bit/8] ^= 1 << uint(bit%8)
			}
		}
	}
	return out
}

// buildMedia materialises every medium of the scenario. Media built by the real
// Encode are produced through the executor (they are code under test).
func (sc *Scenario) buildMedia() map[string][]byte {
	out := map[string][]byte{}
	base := map[string][]byte{}
	byID := map[string]*Medium{}
	for i := range sc.Media {
		byID[sc.Media[i].ID] = &sc.Media[i]
	}
	var baseOf func(id string) []byte
	baseOf = func(id string) []byte {
		if b, ok := base[id]; ok {
			return b
		}
		m := byID[id]
		if m == nil {
			fatalInfra("scenario refers to unknown medium %q", id)
		}
		var b []byte
		switch {
		case m.Records != nil:
			b = m.Records.Build()
		case m.Corpus != "":
			b = append([]byte(nil), readCorpus(m.Corpus)...)
		case m.Encode != nil:
			b = encodeModelFileInto(m.Encode.File, m.Encode.Arch, m.Encode.Prefix)
		default:
			b = unhex(m.Hex)
		}
		for _, c := range m.Chain {
			b = append(b, baseOf(c)...)
		}
		b = append(b, unhex(m.Tail)...)
		b = applyFlips(b, m.Flips)
		base[id] = b
		return b
	}
	for i := range sc.Media {
		out[sc.Media[i].ID] = baseOf(sc.Media[i].ID)
	}
	return out
}

func (sc *Scenario) JSON() []byte {
	b, err := json.Marshal(sc)
	if err != nil {
		fatalInfra("marshal scenario: %v", err)
	}
	return b
}

func (sc *Scenario) Clone() *Scenario {
	var c Scenario
	if err := json.Unmarshal(sc.JSON(), &c); err != nil {
		fatalInfra("clone scenario: %v", err)
	}
	return &c
}

func loadScenario(path string) *Scenario {
	b, err := os.ReadFile(path)
	if err != nil {
		fatalInfra("read scenario: %v", err)
	}
	var sc Scenario
	if err := json.Unmarshal(b, &sc); err != nil {
		fatalInfra("parse scenario %s: %v", path, err)
	}
	return &sc
}

func hexs(b []byte) string { return hex.EncodeToString(b) }

func fatalInfra(format string, a ...interface{}) {
	fmt.Fprintf(os.Stderr, "fitsim: infrastructure error: "+format+"\n", a...)
	os.Exit(2)
}

// medium returns the medium with the given id, or nil.
func (sc *Scenario) medium(id string) *Medium {
	for i := range sc.Media {
		if sc.Media[i].ID == id {
			return &sc.Media[i]
		}
	}
	return nil
}
