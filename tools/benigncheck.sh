#!/bin/bash
VROOT="$(cd "$(dirname "${BASH_SOURCE[0]}")/.." && pwd)"
# tools/benigncheck.sh <dir with patch.diff> [Cxx...]  (default: all claimed checks)
# Applies a behaviour-preserving change to a scratch worktree and runs the quick checks against
# it: every one must stay silent (exit 0). Removes the worktree afterwards.
set -u
export GOFLAGS=-mod=mod GOPROXY=off GOSUMDB=off GOTOOLCHAIN=local
D="$(cd "$1" && pwd)"; shift
PROPS="${*:-C01 C02 C03 C04 C05 C06 C07 C08 C09 C10 C11 C12 C13 C16 C18}"
W="/tmp/scratch/benign-$$"
mkdir -p /tmp/scratch
git -C /repo worktree add --detach "$W" HEAD >/dev/null 2>&1 || exit 2
H=$(echo "$W" | md5sum | cut -c1-8)
cleanup() { git -C /repo worktree remove --force "$W" >/dev/null 2>&1; rm -rf "$W" "$VROOT"/.build/fitsim-$H "$VROOT"/.build/fitsim-race-$H "$VROOT"/.build/go-$H.*; }
trap cleanup EXIT
cd "$W" && git apply "$D/patch.diff" || { echo "patch does not apply"; exit 2; }
go build ./... || { echo "build failed"; exit 2; }
if go test -vet=off -count=1 ./... >/dev/null 2>&1; then echo "suite: PASS"; else echo "suite: FAIL"; fi
rc=0
for P in $PROPS; do
  out=$(FITSIM_REPO="$W" "$VROOT"/check "$P" quick 2>&1); code=$?
  echo "check $P quick: exit $code"
  if [ $code -ne 0 ]; then rc=1; echo "$out" | grep -E '^(violation class|fitsim:)' | head -3 | cut -c1-300; fi
done
exit $rc
