p='/verif/sim/exec.go'
s=open(p).read()
s=s.replace('''	if hasOpt(t, "unknownFields") {
		opts = append(opts, fit.WithUnknownFields())
	}
	if hasOpt(t, "unknownMessages") {
		opts = append(opts, fit.WithUnknownMessages())
	}
	switch t.Call {''','''	if hasOpt(t, "unknownFields") {
		opts = append(opts, optionValue(t, "unknownFields", fit.WithUnknownFields))
	}
	if hasOpt(t, "unknownMessages") {
		opts = append(opts, optionValue(t, "unknownMessages", fit.WithUnknownMessages))
	}
	switch t.Call {''',1)
s=s.replace('''// runTask executes one task against the real library.''','''// sharedOpts holds the option values that tasks with SharedOpts re-use: a
// caller may build its options once and pass the same values to every call.
// Sequential engines only; reset at the start of every scenario.
var sharedOpts = map[string]fit.DecodeOption{}

func resetSharedOpts() { sharedOpts = map[string]fit.DecodeOption{} }

func optionValue(t *Task, name string, mk func() fit.DecodeOption) fit.DecodeOption {
	if !t.SharedOpts {
		return mk()
	}
	if o, ok := sharedOpts[name]; ok {
		return o
	}
	o := mk()
	sharedOpts[name] = o
	return o
}

// runTask executes one task against the real library.''',1)
s=s.replace('''func runScenarioSeq(sc *Scenario) []*Result {
	media := sc.buildMedia()''','''func runScenarioSeq(sc *Scenario) []*Result {
	resetSharedOpts()
	media := sc.buildMedia()''',1)
open(p,'w').write(s)

p='/verif/sim/scenario.go'
s=open(p).read()
s=s.replace('''	Opts   []string   `json:"opts,omitempty"` // logger | unknownFields | unknownMessages
''','''	Opts   []string   `json:"opts,omitempty"` // logger | unknownFields | unknownMessages
	// SharedOpts: the unknown-field / unknown-message option values are built
	// once per scenario and the same values are passed to every such task
	SharedOpts bool `json:"shared_opts,omitempty"`
''',1)
open(p,'w').write(s)

p='/verif/sim/prop_c16.go'
s=open(p).read()
s=s.replace('''	for i, o := range optSets {
		sc.Tasks = append(sc.Tasks, Task{ID: i, Call: "Decode", In: "m0", Opts: o, Read: plan})
	}
	return sc
}''','''	shared := r.Bool() // the caller builds its option values once and re-uses them for every call
	for i, o := range optSets {
		sc.Tasks = append(sc.Tasks, Task{ID: i, Call: "Decode", In: "m0", Opts: o, SharedOpts: shared, Read: plan})
	}
	return sc
}''',1)
s=s.replace('''	// execute the 8 option sets
	var res []*Result
''','''	// execute the 8 option sets
	resetSharedOpts()
	st.ProbeIf(sc.Tasks[0].SharedOpts, "option values re-used across calls")
	var res []*Result
''',1)
s=s.replace('"lists checked per file of a chain"}','"lists checked per file of a chain", "option values re-used across calls"}')
open(p,'w').write(s)

p='/verif/sim/prop_c08.go'
s=open(p).read()
s=s.replace('''		return Task{ID: id, Call: "Decode", In: pickSingle(), Opts: optSets[r.Intn(len(optSets))], Read: genPlan(r, false, true)}''','''		return Task{ID: id, Call: "Decode", In: pickSingle(), Opts: optSets[r.Intn(len(optSets))], SharedOpts: r.Chance(1, 3), Read: genPlan(r, false, true)}''',1)
s=s.replace('''		return Task{ID: id, Call: "DecodeChained", In: hp.chainIDs[r.Intn(len(hp.chainIDs))], Opts: optSets[r.Intn(len(optSets))], Read: genPlan(r, false, true)}''','''		return Task{ID: id, Call: "DecodeChained", In: hp.chainIDs[r.Intn(len(hp.chainIDs))], Opts: optSets[r.Intn(len(optSets))], SharedOpts: r.Chance(1, 3), Read: genPlan(r, false, true)}''',1)
open(p,'w').write(s)
