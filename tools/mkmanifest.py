#!/usr/bin/env python3
# Regenerates /verif/MANIFEST.json from the table below (kept next to DESIGN.md section 1).
import json, subprocess, sys
claimed = json.load(open('/verif/tools/claimed.json'))
NA = {
 "C14": "dyncrc16 is a pure 16-bit state function with no reader, writer, clock or shared state; the property asks for exhaustive enumeration of a pure function, which is not a simulation target (incidental cover only: every model-built stream carries CRCs from an independent bitwise CRC-16/ARC and every read schedule is a write partition of the running checksum).",
 "C15": "agreement of static generated tables with struct types: no execution, schedule, fault or history is involved; a static comparison, not a simulation target (incidental cover: the models use a pinned snapshot of the table, so a changed entry shows up as wrong behaviour in C01/C02/C06).",
 "C17": "pure arithmetic over 2^32 values of Latitude/Longitude/time conversion; no seam, no state, no schedule.",
 "C19": "fitgen is an offline batch program (workbook in, files out); the only nondeterminism is Go map iteration order, which no seed controls, so repeated real runs would be runtime observation; compiling its output is a build step, not an execution under a simulator.",
 "C20": "String() on constants is a pure function and table/generator agreement is a static comparison; nothing a schedule, fault or history can influence.",
}
checks=[]
for pid in sorted(claimed):
    c=claimed[pid]
    checks.append({
      "property_id": pid,
      "quick_cmd": "./check %s quick" % pid,
      "thorough_cmd": "./check %s thorough" % pid,
      "evidence_file": "/verif/evidence/%s.json" % pid,
      "replay_cmd_template": "./check replay {path}",
      "engine": c["engine"],
      "level_claimed": {"category": c["level"], "text": c["text"], "design_ref": c["ref"]},
      "level_note": c["note"],
      "technique": c["technique"],
    })
na=[{"property_id":k,"reason":v} for k,v in sorted(NA.items())]
allp=[json.loads(l)["id"] for l in open('/verif/properties.jsonl')]
for pid in allp:
    if pid not in claimed and pid not in NA:
        na.append({"property_id": pid, "reason": "claimed in DESIGN.md section 1 but its check is not built yet; listed here until the check exists and passes on the unchanged tree"})
hooks=subprocess.run(["git","-C","/repo","log","--format=%H","--","verif_hooks.go"],capture_output=True,text=True).stdout.split()
m={
 "version":1,
 "setup_cmd":"./check setup",
 "hooks":{"guard":"verif","enable":"go build -tags verif (the check script builds /verif/sim against /repo's working tree with this tag on every call)",
          "baseline_off_cmd":"./check baseline-off","source_commits":hooks,"add_only":True},
 "engines":[
  {"name":"rx","path":"/verif/sim","serves_properties":[p for p in sorted(claimed) if claimed[p]["engine"]=="rx"],"kind_free_text":"one task, one simulated stream (possibly a chain), one entry-point call through SimReader with an explicit chunk schedule and at most one cut/fail/flip fault"},
  {"name":"pipe","path":"/verif/sim","serves_properties":[p for p in sorted(claimed) if claimed[p]["engine"]=="pipe"],"kind_free_text":"real Encode into a SimWriter, captured bytes parsed by an independent wire parser and read back by the real decoder through SimReader"},
  {"name":"hist","path":"/verif/sim","serves_properties":[p for p in sorted(claimed) if claimed[p]["engine"]=="hist"],"kind_free_text":"generated call histories in one process; every result compared with the same call made first in a fresh OS process (the restart fault)"},
  {"name":"conc","path":"/verif/sim","serves_properties":[p for p in sorted(claimed) if claimed[p]["engine"]=="conc"],"kind_free_text":"2-8 goroutines parked at every Read/Write/Log call and released one at a time by a seeded schedule; HB-free hand-off under the race detector"},
 ],
 "checks":checks,
 "not_applicable":na,
 "notes":"All checks are deterministic simulation with fault injection (DESIGN.md). VERIF_SEED selects the seed (default 1). Exit 2 = infrastructure trouble, never a VIOLATION.",
}
json.dump(m,open('/verif/MANIFEST.json','w'),indent=1)
print("claimed:",sorted(claimed),"n/a:",[x["property_id"] for x in na])
