#!/bin/bash
# Runs the thorough tier of every claimed property in turn; one line per property in .build/thorough.log
cd "$(dirname "${BASH_SOURCE[0]}")/.."
mkdir -p .build; LOG=.build/thorough.log
: > $LOG
for p in ${@:-C09 C08 C10 C11 C04 C01 C07 C02 C03 C12 C18 C16 C13 C05 C06}; do
  s=$(date +%s)
  ./check $p thorough > .build/thorough-$p.out 2>&1
  rc=$?
  echo "$p exit=$rc secs=$(( $(date +%s) - s )) violations=$(grep -c '^VIOLATION' .build/thorough-$p.out) known=$(grep -c '^KNOWN-FINDING' .build/thorough-$p.out) maxrss=?" >> $LOG
  tail -1 .build/thorough-$p.out >> $LOG
done
echo ALLDONE >> $LOG
