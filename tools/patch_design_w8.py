p='/verif/DESIGN.md'
s=open(p).read()
marker='''Size thresholds are now sampled on purpose (low frequency, so the quick tiers'''
w8='''Eighth wave (14 changes; every agent was given the list of ideas already used
for its property and asked for something else). Twelve caught as the machinery
stood, two missed and then closed:

| id | change (what it needs to manifest) | caught by | note |
|---|---|---|---|
| C01g | unknown-item maps created after the leading file_id is parsed (WithUnknownFields + an unlisted field in the first file_id: nil-map panic) | C01 `panic` | caught |
| C02g | decoders taken from a sync.Pool, reset() forgets the reference time (local / compressed time before the first timestamp of a later decode) | C02 `value/time` (replay with `after_scenarios`), C08 | caught |
| C03g | after the first non-common message every message goes straight to the container (file_creator, timestamp_correlation after a record are lost) | C03 `routing/.../File.FileCreator` | caught |
| C05g | slice written under incremental definitions with a never-reset "already defined" set ({A},{C},{A}) | C05 `values/wire-differs` | caught |
| C06g | string scratch buffer with a high-water mark, stale tail bytes (long, short-in-smaller-field, medium) | C06 `value/string` | caught |
| C07g | "field set already seen" key is a 64-bit mask, fields with struct index >= 64 fall out (session / lap) | C07 `generation1-vs-2` | caught |
| C08g | encode definitions cached in a package-level map and then widened in place by the slice branch | C08 `Encode/encode-output-bytes` | caught |
| C09g | file CRC computed by a goroutine that Encode does not wait for on its error returns | C09 race `Encode.func1`, `encode-post-state` | caught (write-fault tasks in the conc engine) |
| C10g | byte counter updated after the refill loop: a fill near the end of the data pulls the CRC into the data buffer (few small chunk sizes only) | C10 `rejects-valid`, `file-differs-from-alone` | caught |
| C11g | pooled decoder keeps d.file: a cut inside the header returns the previous call's File with the error | C11 `file-without-header` | caught |
| C12g | DecodeChained reuses one decoder, reset() forgets the time reference | C12 `time/full` "file 2 of the chain" | **missed**: C12 never used DecodeChained. New chain family (one scenario in eight: 2-3 time streams as a chain, each file judged by its own reference) |
| C13g | message prototype cache returns the prototype itself on the first miss: later records start from the first record's values | C13 `value`, `partial-value` | caught |
| C16g | option constructors allocate the tally map outside the closure: the same option value passed to a second Decode (or file 2 of a chain) keeps counting | C16 `chain/.../count` | caught through the chain family only; extended: in half of the C16 scenarios (and a third of the C08 history calls) the unknown-field / unknown-message option *values* are built once and re-used for every call (`shared_opts`), now also caught as `C16/UnknownFields/count` |
| C18g | a valid 16-bit source no longer expands when the transmitted enhanced_* value is above 0xFFFF | C18 `SessionMsg.EnhancedMaxSpeed` ... | **missed**: don't-care 5 ("valid source next to a transmitted destination is not generated / not judged") was wider than the statement allows. Narrowed: a valid source decides its destination also when the destination is transmitted (any field order); the don't-care remains only for an explicitly transmitted running total, for enhanced_speed when compressed_speed_distance expands, and for the gear/score bytes when data travels next to a valid data16 |

'''
assert marker in s
s=s.replace(marker,w8+marker,1)
old='''Benign changes (`/verif/benign/*`, `tools/benigncheck.sh`): read buffer 1024
and 16384 bytes, Encode with a single Write, union definition fields in
descending order. All quick checks stay silent on them.'''
new='''Benign changes (`/verif/benign/*`, `tools/benigncheck.sh`; each applied to a
scratch worktree, suite run, then all 15 quick checks). Hand-made B1-B4: read
buffer 1024 and 16384 bytes, Encode with a single Write, union definition
fields in descending order. Agent-made B5-B12 (fresh sub-agents asked for a
behaviour-preserving refactor a maintainer would accept, again without seeing
/verif): decoder.fill replaced by a looping refill helper; profile field
resolved once per definition; encoder scratch buffer with one Write per value;
per-message-type encode tables instead of linear scans; msgAdder.add taking a
pointer instead of a reflect.Value; newDecoder/reset shared by the five entry
points with a decode-mode enum; unknown-item counting in sorted slices instead
of maps; header size byte read with io.ReadFull. All 15 quick checks stay
silent (exit 0, no VIOLATION line, the same KNOWN-FINDING lines) on all
twelve; results in `benign/<id>/verified.txt`.'''
assert old in s
s=s.replace(old,new,1)
old5='''5. a valid component source together with an explicitly transmitted
   destination field in the same record is not generated;'''
new5='''5. a valid component source together with an explicitly transmitted
   destination field in the same record is not generated (narrowed in build
   wave 8, see 7.6: only transmitted running totals, nested expansion and the
   data16+data combination remain don't-cares);'''
assert old5 in s
s=s.replace(old5,new5,1)
open(p,'w').write(s)
