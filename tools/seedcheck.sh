#!/bin/bash
VROOT="$(cd "$(dirname "${BASH_SOURCE[0]}")/.." && pwd)"
# tools/seedcheck.sh <dir with patch.diff [+ *_test.go demo + meta.json]> <Cxx> [more Cxx...]
# Applies a seeded change to a scratch worktree of /repo (outside /repo and /verif), confirms
# it builds and the pinned suite passes there, confirms the demonstration fails with it and
# passes without it, runs the given quick checks against the scratch tree (FITSIM_REPO), and
# removes the worktree with its build output. /repo itself is never touched.
# Exit 0 if every listed check reported a violation (exit 1 + VIOLATION line), 1 otherwise.
set -u
export GOFLAGS=-mod=mod GOPROXY=off GOSUMDB=off GOTOOLCHAIN=local
D="$(cd "$1" && pwd)"; shift
PROPS="$@"
W="/tmp/scratch/seed-$$"
mkdir -p /tmp/scratch
git -C /repo worktree add --detach "$W" HEAD >/dev/null 2>&1 || { echo "cannot create worktree"; exit 2; }
cleanup() { git -C /repo worktree remove --force "$W" >/dev/null 2>&1; rm -rf "$W"; rm -f "$VROOT"/.build/fitsim-$(echo "$W" | md5sum | cut -c1-8) "$VROOT"/.build/fitsim-race-$(echo "$W" | md5sum | cut -c1-8) "$VROOT"/.build/go-$(echo "$W" | md5sum | cut -c1-8).*; }
trap cleanup EXIT
cd "$W" || exit 2
DEMO=$(ls "$D"/*_test.go 2>/dev/null | head -1)
# SEEDFAST=1 (regression runs): the demonstration and the suite were checked when the change
# was collected; only build and run the checks
FAST="${SEEDFAST:-}"
if [ -n "$FAST" ]; then DEMO=""; echo "fast mode: demonstration and suite steps skipped (verified at collection)"; fi
if [ -n "$DEMO" ]; then
  cp "$DEMO" "$W/zz_verif_demo_test.go"
  if go test -vet=off -count=1 -run TestVerifDemo . >"$W/.demo_clean.txt" 2>&1; then echo "demo on unchanged tree: PASS (as required)"; else echo "demo on unchanged tree: FAIL (demo is not valid)"; tail -5 "$W/.demo_clean.txt"; fi
  rm -f "$W/zz_verif_demo_test.go"
fi
git apply --check "$D/patch.diff" || { echo "patch does not apply"; exit 2; }
git apply "$D/patch.diff"
if go build ./... 2>"$W/.build.txt"; then echo "build with change: ok"; else echo "build with change: FAILED"; cat "$W/.build.txt"; exit 1; fi
if [ -n "$FAST" ]; then :; elif go test -vet=off -count=1 ./... >"$W/.suite.txt" 2>&1; then echo "suite with change: PASS (as required)"; else echo "suite with change: FAIL (change is not admissible)"; grep -E "^(---|FAIL|ok)" "$W/.suite.txt" | head; fi
if [ -n "$DEMO" ]; then
  cp "$DEMO" "$W/zz_verif_demo_test.go"
  if go test -vet=off -count=1 -run TestVerifDemo . >"$W/.demo_mut.txt" 2>&1; then echo "demo with change: PASS (demo does not show the break)"; else echo "demo with change: FAIL (as required)"; fi
  rm -f "$W/zz_verif_demo_test.go"
fi
rc=0
for P in $PROPS; do
  out=$(FITSIM_REPO="$W" "$VROOT"/check "$P" quick 2>&1); code=$?
  nv=$(echo "$out" | grep -c '^VIOLATION')
  echo "check $P quick: exit $code, $nv VIOLATION lines"
  echo "$out" | grep '^violation class' | head -3 | cut -c1-300
  if [ $code -eq 1 ]; then
    # replay the first replay file against the same scratch tree
    rp=$(echo "$out" | grep '^VIOLATION' | head -1 | sed 's/.*replay=//')
    rout=$(FITSIM_REPO="$W" "$VROOT"/check replay "$rp" 2>&1 | tail -1)
    echo "  replay of $(basename "$rp"): $rout" | sed "s#$W#<scratch>#g"
  else
    rc=1
  fi
done
exit $rc
