import re
p='/verif/sim/prop_c12.go'
s=open(p).read()
s=s.replace('''func (p *propC12) Gen(idx int) *Scenario {
	r := NewRng(p.seed, "C12", idx)
	h := p.hosts[idx%len(p.hosts)]
	g := &streamGen{r: r, o: StreamOpts{FT: h.ft, Arch: (idx / len(p.hosts)) % 3}}
''','''func (p *propC12) Gen(idx int) *Scenario {
	r := NewRng(p.seed, "C12", idx)
	h := p.hosts[idx%len(p.hosts)]
	arch := (idx / len(p.hosts)) % 3
	plan := genPlan(r, false, true)
	sc := &Scenario{V: 1, Property: "C12", Engine: "rx", Seed: p.seed, Index: idx}
	if idx%8 == 5 {
		// chained family: every file of a chain has its own time reference;
		// nothing of the previous file's clock may reach the next one
		sc.Family = "chain"
		n := r.Range(2, 3)
		var ids []string
		for i := 0; i < n; i++ {
			hh := h
			if i > 0 && r.Bool() {
				hh = p.hosts[r.Intn(len(p.hosts))]
			}
			id := fmt.Sprintf("f%d", i)
			sc.Media = append(sc.Media, Medium{ID: id, Records: p.genStream(r, hh, arch)})
			ids = append(ids, id)
		}
		sc.Media = append(sc.Media, Medium{ID: "m0", Chain: ids})
		sc.Tasks = []Task{{ID: 0, Call: "DecodeChained", In: "m0", Read: plan}}
		return sc
	}
	sc.Media = []Medium{{ID: "m0", Records: p.genStream(r, h, arch)}}
	sc.Tasks = []Task{{ID: 0, Call: "Decode", In: "m0", Read: plan}}
	return sc
}

func (p *propC12) genStream(r *Rng, h ftMesg, arch int) *RecStream {
	g := &streamGen{r: r, o: StreamOpts{FT: h.ft, Arch: arch}}
''')
s=s.replace('''	rs := &RecStream{Header: HeaderSpec{Size: 12 + 2*r.Intn(2), Proto: 0x20, Profile: 2115, HCRC: "ok"}, Ops: g.ops}
	return &Scenario{V: 1, Property: "C12", Engine: "rx", Seed: p.seed, Index: idx,
		Media: []Medium{{ID: "m0", Records: rs}},
		Tasks: []Task{{ID: 0, Call: "Decode", In: "m0", Read: genPlan(r, false, true)}}}
}
''','''	return &RecStream{Header: HeaderSpec{Size: 12 + 2*r.Intn(2), Proto: 0x20, Profile: 2115, HCRC: "ok"}, Ops: g.ops}
}
''')
old_head=s[s.index('func (p *propC12) Check('):s.index('	// probes: replay the time rule over the ops')]
new_head='''func (p *propC12) Check(sc *Scenario, st *Stats) []Violation {
	if len(sc.Media) == 0 || len(sc.Tasks) == 0 {
		return nil
	}
	// the streams of the scenario: one, or the members of a chain
	var streams []*RecStream
	last := &sc.Media[len(sc.Media)-1]
	if len(last.Chain) > 0 {
		for _, id := range last.Chain {
			m := sc.medium(id)
			if m == nil || m.Records == nil {
				return nil
			}
			streams = append(streams, m.Records)
		}
	} else if sc.Media[0].Records != nil {
		streams = []*RecStream{sc.Media[0].Records}
	} else {
		return nil
	}
	var fts []byte
	var mos []*ModelOut
	for _, rs := range streams {
		if !streamSane(rs.Ops) {
			return nil
		}
		ft, ok := fileTypeOfOps(rs.Ops)
		if !ok || !isSupportedFileType(ft) {
			return nil
		}
		mo := interpret(rs.Ops)
		if mo.ErrOp >= 0 {
			return nil
		}
		fts, mos = append(fts, ft), append(mos, mo)
	}
	r := runTask(&sc.Tasks[0], sc.buildMedia(), nil, nil)
	st.Observe(r)
	if r.Panic != "" {
		return []Violation{{Property: "C12", Class: "C12/panic", Detail: r.Panic}}
	}
	if r.ErrClass != "nil" {
		return []Violation{{Property: "C12", Class: "C12/rejects-wellformed", Detail: sc.Tasks[0].Call + " failed: " + r.Err}}
	}
	files := r.files
	if sc.Tasks[0].Call != "DecodeChained" {
		files = []*fit.File{r.file}
	}
	if len(files) != len(streams) {
		return []Violation{{Property: "C12", Class: "C12/chain-length", Detail: fmt.Sprintf("DecodeChained returned %d files for a chain of %d", len(files), len(streams))}}
	}
	var vs []Violation
	seen := map[string]bool{}
	for i, rs := range streams {
		st.ProbeIf(i > 0, "later file of a chain")
		for _, v := range p.checkStream(rs, files[i], fts[i], mos[i], i, st) {
			if seen[v.Class] || len(vs) >= 4 {
				continue
			}
			seen[v.Class] = true
			vs = append(vs, v)
		}
	}
	return vs
}

func (p *propC12) checkStream(rs *RecStream, file *fit.File, ft byte, mo *ModelOut, pos int, st *Stats) []Violation {
	var vs []Violation
'''
s=s.replace(old_head,new_head)
s=s.replace('''	diffs := compareFile(r.file, ft, mo.Msgs, compareOpts{skipAccum: true}, st)
	seen := map[string]bool{}
	for _, d := range diffs {
		cls := "C12/" + d.Shape
		if seen[cls] {
			continue
		}
		seen[cls] = true
		vs = append(vs, Violation{Property: "C12", Class: cls, Detail: fmt.Sprintf("%s (message %s)", d.String(), prof.MesgName(d.Global))})''','''	diffs := compareFile(file, ft, mo.Msgs, compareOpts{skipAccum: true}, st)
	seen := map[string]bool{}
	where := ""
	if pos > 0 {
		where = fmt.Sprintf(", file %d of the chain", pos+1)
	}
	for _, d := range diffs {
		cls := "C12/" + d.Shape
		if seen[cls] {
			continue
		}
		seen[cls] = true
		vs = append(vs, Violation{Property: "C12", Class: cls, Detail: fmt.Sprintf("%s (message %s%s)", d.String(), prof.MesgName(d.Global), where)})''')
s=s.replace('import (\n\t"fmt"\n)','import (\n\t"fmt"\n\n\t"github.com/tormoder/fit"\n)')
s=s.replace('"compressed unknown message"}','"compressed unknown message", "later file of a chain"}')
s=s.replace('explicit re-basing in between,','explicit re-basing in between, one scenario in eight as a chain of 2-3 such files through DecodeChained (each file judged by its own reference),')
open(p,'w').write(s)
