p='/verif/sim/components.go'
s=open(p).read()
s=s.replace('''		if _, explicit := m.Fields[dp.SIndex]; explicit {
			em.dontCare[dp.SIndex] = true // don't-care 5
			return
		}
		em.fields[dp.SIndex] = "u" + strconv.FormatUint(sv&0xFFFF, 10)
		em.comp[dp.SIndex] = true
	}''','''		// a valid source decides the destination even when the destination was
		// also transmitted (the statement has no exception for that case)
		if _, explicit := m.Fields[dp.SIndex]; explicit {
			overridden[dp.SIndex] = true
		}
		em.fields[dp.SIndex] = "u" + strconv.FormatUint(sv&0xFFFF, 10)
		em.comp[dp.SIndex] = true
	}''')
s=s.replace('''		if _, explicit := m.Fields[dp.SIndex]; explicit {
			em.dontCare[dp.SIndex] = true
			return
		}
		em.fields[dp.SIndex] = "u" + strconv.FormatUint(v, 10)
		em.comp[dp.SIndex] = true
	}''','''		if _, explicit := m.Fields[dp.SIndex]; explicit {
			if accumulated {
				em.dontCare[dp.SIndex] = true // don't-care 5: explicit running total next to its compressed source
				return
			}
			overridden[dp.SIndex] = true
		}
		em.fields[dp.SIndex] = "u" + strconv.FormatUint(v, 10)
		em.comp[dp.SIndex] = true
	}''')
s=s.replace('''	g := m.Global
	// src (scalar uint) -> dst plain copy of the 16-bit value''','''	g := m.Global
	overridden := map[int]bool{} // destinations that were transmitted and then replaced by their source's slice
	// src (scalar uint) -> dst plain copy of the 16-bit value''')
s=s.replace('''		if em.dontCare[dp.SIndex] || em.dontCare[ep.SIndex] {''','''		// data transmitted next to a valid data16: data = data16, but the
		// statement is silent on which of the two the gear/score bytes follow
		if em.dontCare[dp.SIndex] || em.dontCare[ep.SIndex] || overridden[dp.SIndex] {''')
open(p,'w').write(s)

p='/verif/sim/prop_c18.go'
s=open(p).read()
s=s.replace('''			if len(d.Fields) == 0 {
				d.Fields = [][3]int{{fnum(gl, "CompressedSpeedDistance"), 3, 0x0D}}
			}''','''			// destinations transmitted next to their sources: the source still decides
			for _, n := range []string{"EnhancedAltitude", "EnhancedSpeed"} {
				if r.Chance(1, 6) {
					d.Fields = append(d.Fields, [3]int{fnum(gl, n), 4, 0x86})
				}
			}
			if len(d.Fields) == 0 {
				d.Fields = [][3]int{{fnum(gl, "CompressedSpeedDistance"), 3, 0x0D}}
			}
			if r.Bool() {
				perm := r.Perm(len(d.Fields))
				nf := make([][3]int, len(d.Fields))
				for i, j := range perm {
					nf[i] = d.Fields[j]
				}
				d.Fields = nf
			}''')
s=s.replace('''					default:
						putN(b, d.be(), pat16(r))
					}
					pl = append(pl, b...)
				}
				g.emitData(local, false, 0, pl)
			}
		case gLap, gSession, gSegmentLap:''','''					default:
						if fd[1] == 4 {
							putN(b, d.be(), pat32(r))
						} else {
							putN(b, d.be(), pat16(r))
						}
					}
					pl = append(pl, b...)
				}
				g.emitData(local, false, 0, pl)
			}
		case gLap, gSession, gSegmentLap:''')
s=s.replace('''			if r.Chance(1, 4) {
				d.Fields = append(d.Fields, [3]int{fnum(gl, "EnhancedAvgAltitude"), 4, 0x86}) // explicit destination (don't-care 5)
			}''','''			// explicit destinations, before or after their sources
			for _, n := range names {
				if r.Chance(1, 6) {
					f := [3]int{fnum(gl, "Enhanced"+n), 4, 0x86}
					if r.Bool() {
						d.Fields = append(d.Fields, f)
					} else {
						d.Fields = append([][3]int{f}, d.Fields...)
					}
				}
			}''')
s=s.replace('''					if fd[1] == 4 {
						putN(b, d.be(), r.U64()&0xFFFFFFFF)
					} else {''','''					if fd[1] == 4 {
						putN(b, d.be(), pat32(r))
					} else {''')
s=s.replace('''func genComponentStream(''','''// pat32: values for explicitly transmitted 32-bit destinations
func pat32(r *Rng) uint64 {
	switch r.Intn(6) {
	case 0:
		return 0xFFFFFFFF
	case 1:
		return uint64(r.Intn(0x10000))
	case 2:
		return 0x10000 + uint64(r.Intn(0x100))
	}
	return r.U64() & 0xFFFFFFFF
}

func genComponentStream(''')
open(p,'w').write(s)
