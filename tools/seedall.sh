#!/bin/bash
VROOT="$(cd "$(dirname "${BASH_SOURCE[0]}")/.." && pwd)"
# Runs tools/seedcheck.sh for every line "<id> <Cxx>..." of seeded/checks.txt (or only the ids given)
# and writes seeded/<id>/verified.txt.
cd "$VROOT"
while read -r id props; do
  [ -z "$id" ] && continue
  if [ $# -gt 0 ] && ! echo " $* " | grep -q " $id "; then continue; fi
  { echo "seedcheck $id against: $props  ($(date -u +%Y-%m-%dT%H:%MZ), repo $(git -C /repo rev-parse --short HEAD), verif $(git -C "$VROOT" rev-parse --short HEAD))"; tools/seedcheck.sh seeded/$id $props 2>&1 | cut -c1-400; echo "seedcheck exit: ${PIPESTATUS[0]}"; } > seeded/$id/verified.txt
  tail -1 seeded/$id/verified.txt | sed "s/^/$id: /"
done < seeded/checks.txt
